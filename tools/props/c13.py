"""C13 — JSON: model of parser.rs / serialize.rs (proved sound+complete against the RFC 8259 grammar, round trip) vs
humphrey_json::Value::{parse, parse_max_depth, serialize, serialize_pretty}; third opinion from CPython's json module
(accept/reject and denoted value) wherever it is a faithful RFC oracle, and from Python floats for number bits."""
import itertools
import json
import os
import re
from tables import read_src as _read_src
import struct
import sys

from hv import hx, REPO

RULE = ('corpus (defect witnesses, repo test inputs, the bundled JSONTestSuite files: y_ must parse, n_ must fail) -> '
        'exhaustive: all strings over the 16-symbol alphabet { } [ ] : , " \\ 0 1 - . e a t space up to length 4 (quick) / 5 '
        '(thorough) and all number-like strings over {+,-,.,0,1,9,e,E} up to length 6 / 7 -> grammar-generated documents '
        '(all value kinds, every escape form, surrogate pairs, whitespace at every legal position, nesting up to 300) with '
        'single-edit mutants and every-prefix truncations, parse_max_depth with small limits; strings of \\uXXXX escapes around the '
        'surrogate range in every arrangement (also run through the spec-level scan no_lone_surrogate_escape vs an independent '
        'implementation) -> random Values (strings over all '
        'of Unicode incl. controls, numbers over the full finite f64 range incl. -0, subnormals, integers beyond 2^53) '
        'serialised by serialize / serialize_pretty(0..8) on both sides, reparsed on both sides and compared with the '
        'original by f64 bit pattern. Compared: ok/err + error class, canonical structural dump (numbers as f64 bits, strings '
        'as UTF-8, members in document order), serialised text byte for byte, bytes requested from the allocator by '
        'Value::parse (counting GlobalAlloc) <= model meter <= 1024 * characters. non-trivial = input whose model outcome is not '
        'the plain InvalidToken rejection (accepted documents, other error classes, all serialiser cases)')
ASSUMPTIONS = [
    'f64 oracle (Section variables fparse/fdisplay/ffinite, hypotheses of the serialiser and round-trip theorems): for finite x, '
    'fparse (fdisplay x) = Some x and fdisplay x matches the RFC 8259 number grammar; checked on every number this run '
    'serialises (Rust Display output re-parsed by f64::from_str, compared by bit pattern, matched against the grammar)',
    'the value denoted by a number literal is whatever f64::from_str returns for it (fparse is abstract in the theorems); '
    'the run compares it with CPython float() bit for bit; literals beyond the f64 range become +-inf (accepted, i_ cases)',
    'f64::from_str accepts every literal of the RFC 8259 number grammar (hypothesis of C13_parse_accepts_iff_pure_syntax); '
    'exercised by the exhaustive number-like stream and every generated number',
    'strings reach the parser as valid UTF-8 (&str); chars() iteration = list of Unicode scalar values',
    'serialiser theorems are for values whose strings hold code points <= 0x10FFFF (always true of a Rust String)',
    'indent arithmetic (indent + indent_size, " ".repeat) is modelled over unbounded N: usize overflow / allocation failure '
    'for astronomically large indents is outside the model',
    'allocation meter (Json.parse_cost): the charge per allocation site (capacities from the source via TablesJson, '
    'size_of::<Value>() = 32, size_of::<(String, Value)>() = 56, amortised-doubling growth charged as 4x the payload) is an '
    'upper-bound model of liballoc; the run checks bytes really requested <= meter on every sampled input and the sizes',
    'residue: real stack use (the theorems bound the recursion depth of the parser by max_depth; serialize / Drop / Clone of a '
    'Value built programmatically with enormous nesting recurse without a limit, like any derived impl)',
]
TRUSTED_EXTRA = [
    'ocaml/d_c13.ml converts number literals to IEEE doubles with OCaml float_of_string (glibc strtod) for the canonical '
    'dump; the Coq model itself never computes with floats',
    'CPython json / float as third-opinion oracles in tools/props/c13.py',
]

ALPHA16 = '{}[]:,"\\01-.eat '
NUMALPHA = '+-.019eE'
NUM_RE = re.compile(r'-?(0|[1-9][0-9]*)(\.[0-9]+)?([eE][+-]?[0-9]+)?\Z')
WS = ' \t\n\r'


def fbits(x):
    return struct.pack('>d', x).hex()


class Obj(list):
    pass


def _no_const(name):
    raise ValueError('constant ' + name)


def py_parse(text):
    """CPython as an RFC 8259 oracle: returns ('ok', value) / ('err',) / None when it is not a faithful oracle here."""
    try:
        v = json.loads(text, object_pairs_hook=Obj, parse_float=float, parse_int=float, parse_constant=_no_const)
    except RecursionError:
        return None
    except ValueError:
        return ('err',)
    return ('ok', v)


def py_depth_and_surrogates(v):
    """(nesting depth, contains a surrogate code point) of a CPython-parsed value, iteratively."""
    maxd, sur = 0, False
    stack = [(v, 0)]
    while stack:
        x, d = stack.pop()
        if isinstance(x, Obj):
            maxd = max(maxd, d + 1)
            for k, y in x:
                if any(0xD800 <= ord(c) <= 0xDFFF for c in k):
                    sur = True
                stack.append((y, d + 1))
        elif isinstance(x, list):
            maxd = max(maxd, d + 1)
            for y in x:
                stack.append((y, d + 1))
        elif isinstance(x, str):
            if any(0xD800 <= ord(c) <= 0xDFFF for c in x):
                sur = True
    return maxd, sur


def py_dump(v):
    out = []
    stack = [v]
    while stack:
        x = stack.pop()
        if x is None:
            out.append('N')
        elif x is True:
            out.append('T')
        elif x is False:
            out.append('F')
        elif isinstance(x, float):
            out.append('B%s;' % fbits(x))
        elif isinstance(x, str):
            out.append('S%s;' % x.encode('utf-8').hex())
        elif isinstance(x, Obj):
            out.append('O%d;' % len(x))
            for k, y in reversed(x):
                stack.append(y)
                stack.append(('K', k))
        elif isinstance(x, tuple) and x[0] == 'K':
            out.append('K%s;' % x[1].encode('utf-8').hex())
        else:
            out.append('A%d;' % len(x))
            for y in reversed(x):
                stack.append(y)
    return ''.join(out)


def oracle_expect(text, max_depth):
    """Expected canonical outcome per RFC 8259 + depth limit from CPython, or None if CPython is not a faithful oracle."""
    # NaN / Infinity / -Infinity are CPython extensions: parse_constant raises for them, which is the RFC answer
    r = py_parse(text)
    if r is None:
        return None
    if r[0] == 'err':
        return 'err'
    d, sur = py_depth_and_surrogates(r[1])
    if sur:
        # CPython keeps unpaired surrogate escapes; the property allows rejecting them and the parser does (InvalidEscape)
        return 'err' if not py_scan(text) else None
    if d > max_depth:
        return 'err'
    return 'ok ' + py_dump(r[1])


def report(ctx, case, observed, expected, cls=None, failing_input=True, what=''):
    """ctx.report with the failed check recorded in the case (distinct replay files for distinct checks on one input)."""
    ctx.report(dict(case, check=cls), observed, expected, cls=cls, failing_input=failing_input, what=what)


def decode_value(enc):
    """Inverse of encode_value (argument encoding -> generated-value tuple)."""
    pos = [0]

    def until():
        e = enc.index(';', pos[0])
        r = enc[pos[0]:e]
        pos[0] = e + 1
        return r

    def go():
        t = enc[pos[0]]
        pos[0] += 1
        if t == 'N':
            return ('n',)
        if t == 'T':
            return ('b', True)
        if t == 'F':
            return ('b', False)
        if t == 'D':
            return ('d', bytes.fromhex(until().split(':')[0]).decode())
        if t == 'S':
            return ('s', bytes.fromhex(until()).decode('utf-8'))
        if t == 'A':
            n = int(until())
            return ('a', [go() for _ in range(n)])
        n = int(until())
        out = []
        for _ in range(n):
            pos[0] += 1
            k = bytes.fromhex(until()).decode('utf-8')
            out.append((k, go()))
        return ('o', out)
    return go()


# ---------------------------------------------------------------------------------------------------
# generated values: ('n',) ('b',bool) ('d',literal) ('s',str) ('a',[v]) ('o',[(k,v)])

def gen_char(rng):
    r = rng.random()
    if r < 0.45:
        return chr(rng.randint(0x20, 0x7e))
    if r < 0.55:
        return chr(rng.randint(0, 0x1f))
    if r < 0.65:
        return rng.choice('"\\/\b\f\n\r\t\x7f\x00\x1f\u00a0\u2028\u2029\ufeff\ufffd\uffff\ud7ff\ue000')
    if r < 0.75:
        return chr(rng.randint(0x80, 0x7ff))
    if r < 0.88:
        c = rng.randint(0x800, 0xffff)
        return chr(c) if not 0xD800 <= c <= 0xDFFF else '\u20ac'
    if r < 0.98:
        return chr(rng.randint(0x10000, 0x10ffff))
    return rng.choice('\U00010000\U0010ffff\U0001d11e\U0001f600')


def gen_string(rng, maxlen=12):
    n = rng.choice([0, 0, 1, 1, 2, 3, 5, 8, maxlen, rng.randint(0, maxlen)])
    return ''.join(gen_char(rng) for _ in range(n))


def gen_finite_literal(rng):
    """A number literal (RFC grammar) whose f64 value is finite; covers the whole finite range."""
    r = rng.random()
    if r < 0.30:
        # uniformly random finite bit pattern (all exponents incl. subnormals), shortest repr
        while True:
            b = rng.getrandbits(64)
            x = struct.unpack('>d', struct.pack('>Q', b))[0]
            if x == x and x not in (float('inf'), float('-inf')):
                return repr(x) if rng.random() < 0.8 else '%.17e' % x
    if r < 0.40:
        return rng.choice(['0', '-0', '0.0', '-0.0', '0e0', '0E+0', '-0e-0', '5e-324', '-5e-324', '4.9406564584124654e-324',
                           '2.2250738585072014e-308', '2.225073858507201e-308', '1.7976931348623157e308',
                           '-1.7976931348623157e308', '1.7976931348623157E+308', '9007199254740992', '9007199254740993',
                           '-9007199254740993', '18446744073709551615', '18446744073709551616', '1e22', '1e23',
                           '123456789012345678901234567890', '0.1', '0.2', '0.30000000000000004', '1e-400', '-1e-400',
                           '3.141592653589793', '100', '1e2', '1E2', '1e+2', '1.0', '1.50', '0.000001', '1e-7', '1e21',
                           '179769313486231570000000000000000000000000000000000000000000000000000000000000000000000000000'
                           '000000000000000000000000000000000000000000000000000000000000000000000000000000000000000000000'
                           '000000000000000000000000000000000000000000000000000000000000000000000000000000000000000000000'
                           '00000000000000000000000000000'])
    if r < 0.60:
        # integers, small and beyond 2^53
        k = rng.choice([1, 2, 3, 8, 15, 16, 17, 19, 20, 25, 40])
        s = str(rng.randint(0, 10 ** k))
        return ('-' if rng.random() < 0.4 else '') + s
    # free-form decimal with optional fraction / exponent
    s = '-' if rng.random() < 0.4 else ''
    s += rng.choice(['0', str(rng.randint(1, 9)) + ''.join(rng.choice('0123456789') for _ in range(rng.randint(0, 20)))])
    if rng.random() < 0.6:
        s += '.' + ''.join(rng.choice('0123456789') for _ in range(rng.randint(1, 25)))
    if rng.random() < 0.5:
        s += rng.choice('eE') + rng.choice(['', '+', '-']) + str(rng.randint(0, 300)).zfill(rng.choice([0, 1, 3]))
    x = float(s)
    if x in (float('inf'), float('-inf')):
        return '1e308'
    return s


def gen_value(rng, depth, width=5):
    r = rng.random()
    if depth <= 0 or r < 0.45:
        k = rng.randint(0, 5)
        if k == 0:
            return ('n',)
        if k == 1:
            return ('b', rng.random() < 0.5)
        if k in (2, 3):
            return ('d', gen_finite_literal(rng))
        return ('s', gen_string(rng))
    if r < 0.75:
        n = rng.choice([0, 1, 1, 2, 3, width])
        return ('a', [gen_value(rng, depth - 1, width) for _ in range(n)])
    n = rng.choice([0, 1, 1, 2, 3, width])
    keys = ['', 'a', 'b', 'a', 'key', gen_string(rng, 6), gen_string(rng, 6)]
    return ('o', [(rng.choice(keys), gen_value(rng, depth - 1, width)) for _ in range(n)])


def nest(rng, k, leaf):
    """k containers around leaf, arrays and single-member objects mixed."""
    v = leaf
    for _ in range(k):
        v = ('a', [v]) if rng.random() < 0.7 else ('o', [('k', v)])
    return v


def vdepth(v):
    d, stack = 0, [(v, 0)]
    while stack:
        x, k = stack.pop()
        if x[0] == 'a':
            d = max(d, k + 1)
            stack.extend((y, k + 1) for y in x[1])
        elif x[0] == 'o':
            d = max(d, k + 1)
            stack.extend((y, k + 1) for _, y in x[1])
    return d


def expected_dump(v, num_bits):
    """Canonical dump of a generated value; num_bits(literal) -> 16 hex digits."""
    out = []
    stack = [v]
    while stack:
        x = stack.pop()
        t = x[0]
        if t == 'n':
            out.append('N')
        elif t == 'b':
            out.append('T' if x[1] else 'F')
        elif t == 'd':
            out.append('B%s;' % num_bits(x[1]))
        elif t == 's':
            out.append('S%s;' % x[1].encode('utf-8').hex())
        elif t == 'K':
            out.append('K%s;' % x[1].encode('utf-8').hex())
        elif t == 'a':
            out.append('A%d;' % len(x[1]))
            stack.extend(reversed(x[1]))
        else:
            out.append('O%d;' % len(x[1]))
            for k, y in reversed(x[1]):
                stack.append(y)
                stack.append(('K', k))
    return ''.join(out)


def encode_value(v, disp):
    """Argument encoding for jser; disp(literal) -> display text (the model's F) or None."""
    out = []
    stack = [v]
    while stack:
        x = stack.pop()
        t = x[0]
        if t == 'n':
            out.append('N')
        elif t == 'b':
            out.append('T' if x[1] else 'F')
        elif t == 'd':
            out.append('D%s:%s;' % (x[1].encode().hex(), disp(x[1]).encode().hex()))
        elif t == 's':
            out.append('S%s;' % x[1].encode('utf-8').hex())
        elif t == 'K':
            out.append('K%s;' % x[1].encode('utf-8').hex())
        elif t == 'a':
            out.append('A%d;' % len(x[1]))
            stack.extend(reversed(x[1]))
        else:
            out.append('O%d;' % len(x[1]))
            for k, y in reversed(x[1]):
                stack.append(y)
                stack.append(('K', k))
    return ''.join(out)


def literals_of(v):
    out, stack = [], [v]
    while stack:
        x = stack.pop()
        if x[0] == 'd':
            out.append(x[1])
        elif x[0] == 'a':
            stack.extend(x[1])
        elif x[0] == 'o':
            stack.extend(y for _, y in x[1])
    return out


def hexcase(rng, s):
    return ''.join(c.upper() if rng.random() < 0.5 else c for c in s)


SIMPLE = {'"': '\\"', '\\': '\\\\', '/': '\\/', '\b': '\\b', '\f': '\\f', '\n': '\\n', '\r': '\\r', '\t': '\\t'}


def render_string(rng, s, esc_rate):
    out = ['"']
    for c in s:
        o = ord(c)
        must = c in '"\\' or o < 0x20
        if not must and rng.random() >= esc_rate:
            out.append(c)
            continue
        if c in SIMPLE and rng.random() < 0.6:
            out.append(SIMPLE[c])
        elif o < 0x10000:
            out.append('\\u' + hexcase(rng, '%04x' % o))
        else:
            o -= 0x10000
            out.append('\\u' + hexcase(rng, '%04x' % (0xD800 + (o >> 10))) + '\\u' + hexcase(rng, '%04x' % (0xDC00 + (o & 0x3ff))))
    out.append('"')
    return ''.join(out)


def render(rng, v, ws_rate=0.3, esc_rate=0.15):
    """RFC 8259 text for v with random insignificant whitespace at every legal position and random escape forms.
    Iterative so that depth 300 does not hit Python's recursion limit."""
    def ws():
        if rng.random() >= ws_rate:
            return ''
        return ''.join(rng.choice(WS) for _ in range(rng.choice([1, 1, 1, 2, 3])))

    out = []
    stack = [v]
    while stack:
        x = stack.pop()
        if isinstance(x, str):
            out.append(x)
            continue
        t = x[0]
        if t == 'n':
            out.append('null')
        elif t == 'b':
            out.append('true' if x[1] else 'false')
        elif t == 'd':
            out.append(x[1])
        elif t == 's':
            out.append(render_string(rng, x[1], esc_rate))
        elif t == 'a':
            items = x[1]
            if not items:
                out.append('[' + ws() + ']')
                continue
            seq = ['[']
            for i, y in enumerate(items):
                if i:
                    seq.append(',')
                seq.append(ws())
                seq.append(y)
                seq.append(ws())
            seq.append(']')
            stack.extend(reversed(seq))
        else:
            items = x[1]
            if not items:
                out.append('{' + ws() + '}')
                continue
            seq = ['{']
            for i, (k, y) in enumerate(items):
                if i:
                    seq.append(',')
                seq.append(ws())
                seq.append(render_string(rng, k, esc_rate))
                seq.append(ws())
                seq.append(':')
                seq.append(ws())
                seq.append(y)
                seq.append(ws())
            seq.append('}')
            stack.extend(reversed(seq))
    return ws() + ''.join(out) + ws()


MUT_CHARS = list('{}[]:,"\\0123456789-+.eEtrufalsn/ \t\n\r') + ['\x00', '\x1f', '\x0b', '\x0c', '\x7f', '\u00a0', '\u2028',
                                                                '\ufeff', 'é', '\U0001f600', 'N', 'I', '\'', 'x', 'u']


STRUCT = '{}[]:,"'


def mutate(rng, text):
    if not text:
        return rng.choice(MUT_CHARS)
    i = rng.randrange(len(text) + 1)
    k = rng.random()
    if k < 0.25:
        # structure-aware edits: act on a structural character (separator dropped / doubled / exchanged, trailing comma,
        # closer exchanged), or swap two neighbours
        pos = [j for j, c in enumerate(text) if c in STRUCT]
        if pos:
            j = rng.choice(pos)
            c = text[j]
            op = rng.randrange(6)
            if op == 0:
                return text[:j] + text[j + 1:]
            if op == 1:
                return text[:j] + c + text[j:]
            if op == 2:
                return text[:j] + rng.choice(STRUCT) + text[j + 1:]
            if op == 3 and c in '}]':
                return text[:j] + ',' + text[j:]
            if op == 4 and c in '{[':
                return text[:j + 1] + ',' + text[j + 1:]
            if j + 1 < len(text):
                return text[:j] + text[j + 1] + text[j] + text[j + 2:]
            return text[:j]
        k = 0.5
    if k < 0.35 and i < len(text):
        return text[:i] + text[i + 1:]
    if k < 0.7:
        return text[:i] + rng.choice(MUT_CHARS) + text[i:]
    if i < len(text):
        return text[:i] + rng.choice(MUT_CHARS) + text[i + 1:]
    return text + rng.choice(MUT_CHARS)


HEXD = set('0123456789abcdefABCDEF')


def py_scan(text):
    """Independent implementation of JsonSpec.no_lone_surrogate_escape."""
    i, n = 0, len(text)
    while i < n:
        if text[i] != '\\':
            i += 1
            continue
        if i + 1 >= n:
            return True
        if text[i + 1] != 'u':
            i += 2
            continue
        h = text[i + 2:i + 6]
        if len(h) < 4:
            return True
        if not all(c in HEXD for c in h):
            i += 6
            continue
        code = int(h, 16)
        if 0xD800 <= code <= 0xDFFF:
            if code >= 0xDC00:
                return False
            nx = text[i + 6:i + 12]
            if len(nx) < 6 or nx[0] != '\\' or nx[1] != 'u' or not all(c in HEXD for c in nx[2:]):
                return False
            if not 0xDC00 <= int(nx[2:], 16) <= 0xDFFF:
                return False
            i += 12
        else:
            i += 6
    return True


def surrogate_docs(ctx):
    """Strings made of escape sequences around the surrogate range, in every order: paired, lone high, lone low, inverted."""
    rng = ctx.rng
    n = 20000 if ctx.tier == 'thorough' else 2500
    pieces = ['\\uD800', '\\uDBFF', '\\uDC00', '\\uDFFF', '\\uD834', '\\uDD1E', '\\ud83d', '\\ude00', '\\uD7FF', '\\uE000',
              '\\u0041', '\\u0000', '\\uFFFF', 'a', '\\\\', '\\n', '\\"', '\\/', '\\u', '\\uD83', 'uD834', '\\uDg00', '\\u+D83', ' ', 'é',
              '\U0001d11e']
    out = []
    for _ in range(n):
        body = ''.join(rng.choice(pieces) for _ in range(rng.randint(1, 6)))
        k = rng.random()
        if k < 0.6:
            text = '"' + body + '"'
        elif k < 0.8:
            text = '{"' + body + '":"' + ''.join(rng.choice(pieces) for _ in range(rng.randint(0, 3))) + '"}'
        else:
            text = '["' + body + '",1]'
        out.append((text, 'surrogates', None, None))
    return out


# ---------------------------------------------------------------------------------------------------

def read_max_depth():
    src = _read_src(REPO + '/humphrey-json/src/parser.rs')
    return int(re.search(r'const\s+MAX_DEPTH\s*:\s*usize\s*=\s*([0-9_]+)', src).group(1).replace('_', ''))


def corpus_cases():
    """(text, tag, expectation) — expectation 'y' / 'n' / None."""
    out = []
    here = os.path.dirname(os.path.dirname(os.path.dirname(os.path.abspath(__file__))))
    cdir = here + '/corpus/C13'
    if os.path.isdir(cdir):
        for f in sorted(os.listdir(cdir)):
            if f.endswith('.json'):
                for e in json.load(open(os.path.join(cdir, f), encoding='utf-8')):
                    out.append((e['text'], 'corpus', e.get('expect')))
    nonutf8 = 0
    for d, tag in ((REPO + '/humphrey-json/src/tests/spec/testcases', 'testsuite'),
                   (REPO + '/humphrey-json/src/tests/testcases', 'repo-tests')):
        if not os.path.isdir(d):
            continue
        for f in sorted(os.listdir(d)):
            raw = open(os.path.join(d, f), 'rb').read()
            try:
                text = raw.decode('utf-8')
            except UnicodeDecodeError:
                nonutf8 += 1
                continue
            exp = None
            if tag == 'testsuite':
                exp = 'y' if f.startswith('y_') else 'n' if f.startswith('n_') else None
            out.append((text, tag + ':' + f, exp))
    return out, nonutf8


def exhaustive_cases(ctx):
    thorough = ctx.tier == 'thorough'
    la, ln = (5, 7) if thorough else (4, 6)
    for k in range(la + 1):
        for x in itertools.product(ALPHA16, repeat=k):
            yield ''.join(x), 'exh16'
    for k in range(1, ln + 1):
        for x in itertools.product(NUMALPHA, repeat=k):
            yield ''.join(x), 'exhnum'


def generated_docs(ctx, max_depth):
    """Grammar-generated documents with their expected outcome, mutants and truncations (expected outcome from oracles)."""
    rng = ctx.rng
    thorough = ctx.tier == 'thorough'
    ndocs = 30000 if thorough else 2500
    out = []   # (text, tag, expected or None, depth_limit or None)
    for i in range(ndocs):
        r = rng.random()
        if r < 0.08:
            # deep nesting around the limit and up to 300
            k = rng.choice([max_depth - 2, max_depth - 1, max_depth, max_depth + 1, max_depth + 2, 300, rng.randint(1, 300)])
            leafdepth = rng.choice([0, 0, 1])
            leaf = gen_value(rng, leafdepth, 2) if leafdepth else rng.choice([('n',), ('d', '1'), ('s', 'x'), ('a', []), ('o', [])])
            v = nest(rng, k, leaf)
            text = render(rng, v, ws_rate=rng.choice([0, 0.05]), esc_rate=0.05)
            tag = 'gen-deep'
        else:
            v = gen_value(rng, rng.choice([0, 1, 2, 3, 4, 6]), rng.choice([2, 3, 5]))
            text = render(rng, v, ws_rate=rng.choice([0, 0.3, 0.9]), esc_rate=rng.choice([0, 0.15, 0.6, 1.0]))
            tag = 'gen-doc'
        exp = 'ok ' + expected_dump(v, lambda l: fbits(float(l))) if vdepth(v) <= max_depth else 'err depth'
        out.append((text, tag, exp, None))
        # mutants
        for _ in range(8 if tag == 'gen-doc' else 2):
            out.append((mutate(rng, text), 'mutant', None, None))
        if rng.random() < 0.1:
            m = text
            for _ in range(rng.randint(2, 4)):
                m = mutate(rng, m)
            out.append((m, 'mutant-multi', None, None))
        # truncations: every prefix of short documents, a few of long ones
        if len(text) <= 40 and rng.random() < 0.3:
            for j in range(len(text)):
                out.append((text[:j], 'prefix', None, None))
        elif rng.random() < 0.3:
            for _ in range(3):
                out.append((text[:rng.randrange(len(text) + 1)], 'prefix', None, None))
        # explicit depth limits (Value::parse_max_depth)
        if rng.random() < 0.15:
            d = vdepth(v)
            for lim in {0, 1, max(d - 1, 0), d, d + 1}:
                if lim > 300:
                    continue
                e = 'ok ' + expected_dump(v, lambda l: fbits(float(l))) if d <= lim else 'err depth'
                out.append((text, 'maxdepth', e, lim))
    return out


def serial_values(ctx):
    rng = ctx.rng
    thorough = ctx.tier == 'thorough'
    n = 12000 if thorough else 1200
    out = []
    for i in range(n):
        r = rng.random()
        if r < 0.25:
            v = rng.choice([('d', gen_finite_literal(rng)), ('s', gen_string(rng, 40)), ('s', ''.join(chr(c) for c in range(0, 0x30))),
                            ('a', []), ('o', []), ('n',), ('b', True), ('b', False)])
        elif r < 0.30:
            v = nest(rng, rng.choice([3, 10, 40, 255, 256]), gen_value(rng, 0))
        else:
            v = gen_value(rng, rng.choice([1, 2, 3, 4, 5]), rng.choice([2, 3, 5]))
        out.append(v)
    return out


def run_parse_batch(ctx, cases, max_depth):
    """cases: list of (text, tag, expected|None, limit|None[, testsuite expectation])."""
    lines = []
    for c in cases:
        text, lim = c[0], c[3]
        lines.append('jparse %s' % hx(text) if lim is None else 'jparsed %d %s' % (lim, hx(text)))
    m, im = ctx.both(lines)
    bad = []
    for idx, (c, a, b, line) in enumerate(zip(cases, m, im, lines)):
        text, tag, exp, lim = c[0], c[1], c[2], c[3]
        ts = c[4] if len(c) > 4 else None
        stream = tag.split(':')[0]
        ctx.count(stream)
        ctx.count('model:' + a.split(' ')[0] + ('-' + a.split(' ')[1] if a.startswith('err') else ''))
        ctx.count('impl:' + b.split(' ')[0] + ('-' + b.split(' ')[1] if b.startswith('err') else ''))
        if a != 'err tok':
            ctx.mark_nontrivial(('p', text, lim))
        case = {'kind': 'parse', 'text': text, 'limit': lim, 'stream': tag, 'line': line}
        # third opinion
        if exp is None and stream in ('exh16', 'exhnum', 'mutant', 'mutant-multi', 'prefix', 'corpus', 'testsuite', 'repo-tests', 'surrogates'):
            if stream == 'exhnum':
                exp = ('ok B%s;' % fbits(float(text))) if NUM_RE.match(text) else 'err'
            else:
                exp = oracle_expect(text, max_depth if lim is None else lim)
        if a in ('DIED', 'TIMEOUT') or a.startswith('CRASH') or a.startswith('EXN') or a == 'err FUEL' or a.startswith('NOHANDLER'):
            report(ctx, case, 'model=' + a[:200], 'a value or an error class', cls='model-broken', failing_input=False,
                       what='the extracted model crashed / ran out of fuel on this input (contradicts json_parse_safe)')
            continue
        if exp is not None:
            agree = (a == exp) if exp != 'err' else a.startswith('err')
            if not agree:
                report(ctx, case, 'model=' + a[:300], 'oracle=' + exp[:300], cls='model-vs-oracle', failing_input=False,
                           what='the proved model disagrees with the independent oracle (CPython json/float or the generator)')
        if b in ('PANIC', 'DIED', 'TIMEOUT'):
            report(ctx, case, 'impl=' + b, 'model=' + a[:300], cls='parse-crash', failing_input=True,
                       what='Value::parse %s on %r' % ({'PANIC': 'panicked', 'DIED': 'killed the process', 'TIMEOUT': 'did not return'}[b],
                                                       text[:80]))
            continue
        if a != b:
            bad.append((case, a, b))
        if ts == 'y' and not b.startswith('ok'):
            report(ctx, case, 'impl=' + b[:200], 'accepted (JSONTestSuite y_ case)', cls='testsuite', failing_input=True,
                       what='%s must be accepted (y_ case of JSONTestSuite or corpus)' % tag)
        if ts == 'n' and b.startswith('ok'):
            report(ctx, case, 'impl=' + b[:200], 'rejected (JSONTestSuite n_ case)', cls='testsuite', failing_input=True,
                       what='%s must be rejected (n_ case of JSONTestSuite or corpus)' % tag)
    if bad:
        # does the implementation behave like the tree before the fixes?
        old = ctx.model(['jparse_old %s' % hx(c['text']) for c, _, _ in bad[:200]])
        for k, (case, a, b) in enumerate(bad):
            legacy = k < len(old) and old[k] == b and case['limit'] is None
            both_reject = a.startswith('err') and b.startswith('err')
            if both_reject:
                what = 'both reject %r but with different error classes' % case['text'][:80]
            elif b.startswith('ok') and a.startswith('err'):
                what = 'Value::parse accepts %r, which is not RFC 8259 JSON within the depth limit' % case['text'][:80]
            elif a.startswith('ok') and b.startswith('err'):
                what = 'Value::parse rejects the valid JSON text %r' % case['text'][:80]
            else:
                what = 'Value::parse(%r) returns a different value than the text denotes' % case['text'][:80]
            if legacy:
                what += ' (this is the behaviour of the tree before fixes F22/F23/F25)'
            report(ctx, case, 'impl=' + b[:300], 'model=' + a[:300], cls='parse-mismatch', failing_input=not both_reject, what=what)
    return m, im


def run_serial(ctx, values, indents, max_depth):
    """values -> serialize on both sides -> reparse on both sides -> compare with the original."""
    lits = sorted({l for v in values for l in literals_of(v)})
    disp = {}
    out = ctx.impl(['fdisp %s' % hx(l) for l in lits])
    ctx.evaluations += len(lits)
    for l, o in zip(lits, out):
        p = o.split(' ')
        case = {'kind': 'fdisp', 'literal': l, 'line': 'fdisp %s' % hx(l)}
        if p[0] != 'ok':
            report(ctx, case, o, 'f64::from_str accepts an RFC number literal', cls='f64-hypothesis', failing_input=True,
                       what='f64::from_str rejected the RFC 8259 number %r' % l)
            disp[l] = (l, '0' * 16)
            continue
        text = bytes.fromhex(p[1][1:]).decode('utf-8')
        disp[l] = (text, p[2])
        ctx.count('f64-display-checked')
        if p[2] != fbits(float(l)):
            report(ctx, case, 'bits=' + p[2], 'CPython float bits=' + fbits(float(l)), cls='f64-hypothesis', failing_input=True,
                       what='f64::from_str(%r) is not the correctly rounded double' % l)
        if not NUM_RE.match(text) or p[3] != p[2]:
            report(ctx, case, 'display=%r reparsed=%s' % (text, p[3]), 'an RFC number that parses back to ' + p[2],
                       cls='f64-hypothesis', failing_input=True,
                       what='f64 Display of the finite number %r is not a JSON number that parses back to it' % l)
    jobs = []
    for v in values:
        enc = encode_value(v, lambda l: disp[l][0])
        want = expected_dump(v, lambda l: disp[l][1])
        d = vdepth(v)
        for ind in indents(v):
            jobs.append((v, enc, want, d, ind))
    lines = ['jser %s %s' % ('-' if ind is None else ind, enc) for _, enc, _, _, ind in jobs]
    m, im = ctx.both(lines)
    reparse = []
    textdiff = []
    for (v, enc, want, d, ind), a, b, line in zip(jobs, m, im, lines):
        ctx.count('serialize' if ind is None else 'pretty')
        if ind is not None:
            ctx.count('indent=%d' % ind)
        ctx.mark_nontrivial(('s', enc, ind))
        case = {'kind': 'ser', 'indent': ind, 'value': enc, 'line': line}
        if not a.startswith('h'):
            report(ctx, case, 'model=' + a[:200], 'text', cls='model-broken', failing_input=False, what='model serialiser failed')
            continue
        if b in ('PANIC', 'DIED', 'TIMEOUT') or not b.startswith('h'):
            report(ctx, case, 'impl=' + b[:200], 'model=' + a[:200], cls='ser-crash', failing_input=True,
                       what='serialize%s panicked or died' % ('' if ind is None else '_pretty(%d)' % ind))
            continue
        text = bytes.fromhex(b[1:]).decode('utf-8')
        if a != b:
            mt = bytes.fromhex(a[1:]).decode('utf-8')
            textdiff.append((case, text, mt))
        reparse.append((case, text, want, d))
    lines2 = ['jparse %s' % hx(t) for _, t, _, _ in reparse]
    m2, im2 = ctx.both(lines2)
    for (case, text, want, d), a, b in zip(reparse, m2, im2):
        exp = 'ok ' + want if d <= max_depth else 'err depth'
        ctx.count('roundtrip:' + exp.split(' ')[0])
        case = dict(case, text=text)
        # validity: independent opinion
        o = oracle_expect(text, max_depth)
        if o is not None and o != exp:
            report(ctx, case, 'serialised=%r' % text[:300], 'valid RFC 8259 text denoting the value', cls='ser-invalid',
                       failing_input=True, what='serialize%s emits text that CPython json does not read back as the value' % (
                           '' if case['indent'] is None else '_pretty(%d)' % case['indent']))
        if a != exp:
            report(ctx, case, 'model parse=' + a[:300], 'original=' + exp[:300], cls='model-vs-oracle', failing_input=False,
                       what='model round trip differs from the original value')
        if b != exp:
            report(ctx, case, 'impl parse=' + b[:300], 'original=' + exp[:300], cls='roundtrip', failing_input=True,
                       what='parse(serialize%s(v)) is not v' % ('' if case['indent'] is None else '_pretty(%d)' % case['indent']))
    # text differences last (and only a few): a serialiser that is wrong shows up above with a failing input first
    for case, text, mt in textdiff[:5]:
        report(ctx, case, 'impl=%r' % text[:300], 'model=%r' % mt[:300], cls='ser-mismatch', failing_input=False,
                   what='serialised text differs from the model in %d case(s) (validity and round trip are checked separately)'
                   % len(textdiff))


def coq_crosscheck(ctx, texts):
    """Evaluate a few cases inside Coq (vm_compute on the model itself) and compare with the extracted runner: spot-check of
    the extraction + OCaml driver. One coqc call; the generated file lives under coq/work/ (not part of the development)."""
    import subprocess
    from hv import COQ
    outs = ctx.model(['jps %s' % hx(t) for t in texts])
    lines = ['From Hv Require Import Prelude TablesJson Json.', 'Open Scope N_scope.']
    for k, (t, o) in enumerate(zip(texts, outs)):
        src = '[' + '; '.join(str(ord(c)) for c in t) + ']'
        p = o.split(' ')
        if p[0] == 'ok':
            body = '[' + '; '.join(p[1].split(';') if len(p) > 1 and p[1] else []) + ']'
            want = '(0, %s)' % body
        elif p[0] == 'err':
            want = '(%s, [])' % p[1]
        else:
            want = '(1000, [])'
        lines.append('Goal (match xparse xmax_depth %s with Ok v => (0, xserialize_pretty 1 v) | Err e => (e, []) '
                     '| Crash w => (1000, []) end) = %s. Proof. vm_compute. reflexivity. Qed.' % (src, want))
    os.makedirs(COQ + '/work', exist_ok=True)
    path = COQ + '/work/C13_cases.v'
    open(path, 'w').write('\n'.join(lines) + '\n')
    p = subprocess.run(['timeout', '300', 'coqc', '-Q', COQ + '/theories', 'Hv', path], stdout=subprocess.PIPE,
                       stderr=subprocess.STDOUT, cwd=COQ + '/work')
    ctx.evaluations += len(texts)
    ctx.count('coq-vm_compute-crosscheck', len(texts))
    if p.returncode != 0:
        out = p.stdout.decode('utf-8', 'replace')
        mm = re.search(r'line (\d+)', out)
        k = int(mm.group(1)) - 3 if mm else -1
        t = texts[k] if 0 <= k < len(texts) else '?'
        report(ctx, {'kind': 'parse', 'text': t, 'limit': None, 'stream': 'coq-crosscheck', 'line': 'jps %s' % hx(t)},
               'extracted runner=' + (outs[k][:200] if 0 <= k < len(outs) else '?'), 'vm_compute in Coq: ' + out[-300:],
               cls='extraction', failing_input=False,
               what='the extracted OCaml model and the Coq model (vm_compute) disagree: extraction / driver problem')


def check_alloc(ctx, acases):
    """bytes really requested by Value::parse <= model meter <= 1024 * characters; returns the worst measured ratio."""
    real = ctx.impl(['jalloc %s' % hx(t) for t in acases])
    cost = ctx.model(['jcost %s' % hx(t) for t in acases])
    ctx.evaluations += len(acases)
    worst = 0.0
    for t, r, c in zip(acases, real, cost):
        case = {'kind': 'alloc', 'text': t, 'line': 'jalloc %s' % hx(t)}
        ctx.count('alloc-checked')
        try:
            rt = int(r.split(' ')[1])
            cm = int(c)
        except (ValueError, IndexError):
            report(ctx, case, 'impl=%s model=%s' % (r[:80], c[:80]), 'two numbers', cls='alloc-meter', failing_input=False,
                   what='allocation measurement failed')
            continue
        if t:
            worst = max(worst, rt / len(t.encode('utf-8')))
        if cm > 1024 * len(t):
            report(ctx, case, 'model meter=%d' % cm, '<= 1024 * %d characters' % len(t), cls='model-vs-oracle',
                   failing_input=False, what='meter exceeds the proved bound')
        if rt > 1024 * max(len(t.encode('utf-8')), 1) and t:
            report(ctx, case, 'bytes requested=%d' % rt, '<= 1024 * %d input bytes' % len(t.encode('utf-8')), cls='alloc-bound',
                   failing_input=True,
                   what='Value::parse requested %d bytes from the allocator for the %d-byte input %r' % (rt, len(t.encode('utf-8')), t[:60]))
        elif rt > cm:
            report(ctx, case, 'bytes requested=%d' % rt, 'model meter=%d' % cm, cls='alloc-meter',
                   failing_input=rt > 1024 * len(t.encode('utf-8')),
                   what='Value::parse requested more bytes from the allocator than the model meter allows on %r' % t[:60])
    return worst


EQ_DOCS = ['null', 'true', 'false', '0', '1', '1.0', '1e0', '2', '"a"', '"b"', '""', '"1"', '[]', '[1]', '[1,2]', '[2,1]', '[null]', '[[]]', '[true]',
           '{}', '{"a":1}', '{"a":1,"b":2}', '{"b":2,"a":1}', '{"a":[]}', '{"a":{}}', '{"a":null}', '[{}]', '[1.5]', '[0,0]', '"null"']


def run_eq(ctx):
    """Value's PartialEq: two parsed documents are equal iff they denote the same value (members in order)."""
    import json as _json
    lines, meta = [], []
    for a in EQ_DOCS:
        for b in EQ_DOCS:
            lines.append('jeq %s %s' % (hx(a), hx(b)))
            meta.append((a, b))
    m, im = ctx.both(lines)
    pairs = lambda t: _json.loads(t, object_pairs_hook=lambda ps: ('obj', ps))
    for line, (a, b), x, y in zip(lines, meta, m, im):
        ctx.count('eq-probe')
        def deq(u, v):
            num = lambda z: isinstance(z, (int, float)) and not isinstance(z, bool)
            if num(u) and num(v):
                return float(u) == float(v)
            if type(u) is not type(v):
                return False
            if isinstance(u, list):
                return len(u) == len(v) and all(deq(p, q) for p, q in zip(u, v))
            if isinstance(u, tuple):      # ('obj', [(key, value), ...]): members in order
                return len(u[1]) == len(v[1]) and all(k1 == k2 and deq(x1, x2) for (k1, x1), (k2, x2) in zip(u[1], v[1]))
            return u == v
        va, vb = pairs(a), pairs(b)
        same = deq(va, vb)
        want = 'eq=%d ne=%d' % (int(same), int(not same))
        if x != want:
            report(ctx, {'kind': 'eq', 'line': line, 'a': a, 'b': b}, 'model=' + x, 'oracle=' + want, cls='model-vs-oracle', failing_input=False,
                   what='model and CPython disagree on the equality of two documents')
        if y != want:
            report(ctx, {'kind': 'eq', 'line': line, 'a': a, 'b': b}, y, want, cls='value-eq', failing_input=True,
                   what='Value == on the parsed documents %r and %r gives %s' % (a, b, y))
        elif same and a != b:
            ctx.mark_nontrivial(('eq', a, b))


def run(ctx):
    sys.setrecursionlimit(20000)
    max_depth = read_max_depth()
    if ctx.replay:
        c = ctx.replay['case']
        if c.get('kind') == 'parse':
            run_parse_batch(ctx, [(c['text'], c.get('stream', 'replay'), None, c.get('limit'))], max_depth)
        elif c.get('kind') == 'fdisp':
            run_serial(ctx, [('d', c['literal'])], lambda v: [None], max_depth)
        elif c.get('kind') == 'alloc':
            check_alloc(ctx, [c['text']])
        elif c.get('kind') == 'scan':
            o = ctx.model([c['line']])[0]
            want = 'true' if py_scan(c['text']) else 'false'
            if o != want:
                report(ctx, c, 'model=' + o, 'python=' + want, cls='model-vs-oracle', failing_input=False,
                       what='JsonSpec.no_lone_surrogate_escape disagrees with the independent implementation')
        elif c.get('kind') == 'sizes':
            sm, si = ctx.both(['jsizes'])
            if sm[0] != si[0]:
                report(ctx, c, 'impl=' + si[0], 'model=' + sm[0], cls='alloc-meter', failing_input=False,
                       what='the element sizes assumed by the allocation meter differ from the build')
        elif c.get('kind') == 'ser':
            ind = c.get('indent')
            run_serial(ctx, [decode_value(c['value'])], lambda v: [ind], max_depth)
        return
    run_eq(ctx)
    thorough = ctx.tier == 'thorough'

    # 1. corpus
    corpus, nonutf8 = corpus_cases()
    ctx.count('testsuite-files-not-utf8-skipped', nonutf8)
    m, im = run_parse_batch(ctx, [(t, tag, None, None, e) for t, tag, e in corpus], max_depth)
    corpus_alloc = [(t, tag, None, None) for t, tag, e in corpus]
    for (t, tag, e), a in list(zip(corpus, m))[:2]:
        ctx.sample({'stream': tag, 'text': t[:80], 'model': a[:80]})

    # 2. exhaustive
    ex = [(t, tag, None, None) for t, tag in exhaustive_cases(ctx)]
    m, im = run_parse_batch(ctx, ex, max_depth)
    ctx.exhaustive = True
    for k in (len(ex) // 3, len(ex) - 7):
        ctx.sample({'stream': ex[k][1], 'text': ex[k][0], 'model': m[k][:80], 'impl': im[k][:80]})
    del ex

    # 3. grammar-generated documents, mutants, truncations, explicit limits
    docs = generated_docs(ctx, max_depth)
    m, im = run_parse_batch(ctx, docs, max_depth)
    for k in (0, 1, len(docs) // 2):
        ctx.sample({'stream': docs[k][1], 'text': docs[k][0][:120], 'model': m[k][:120], 'impl': im[k][:120]})

    # 3b. surrogate escapes in every arrangement; the spec-level scan against an independent implementation, and the
    #     proved equivalence "accepted <-> RFC text within depth and scan passes" observed on the implementation
    sd = surrogate_docs(ctx)
    m, im = run_parse_batch(ctx, sd, max_depth)
    esc_cases = [c for c in sd + docs if '\\u' in c[0]][:60000]
    sc = ctx.model(['jscan %s' % hx(c[0]) for c in esc_cases])
    ctx.evaluations += len(esc_cases)
    for c, o in zip(esc_cases, sc):
        want = 'true' if py_scan(c[0]) else 'false'
        ctx.count('scan:' + o)
        if o != want:
            report(ctx, {'kind': 'scan', 'text': c[0], 'line': 'jscan %s' % hx(c[0])}, 'model=' + o, 'python=' + want,
                   cls='model-vs-oracle', failing_input=False,
                   what='JsonSpec.no_lone_surrogate_escape disagrees with the independent implementation')
    for (text, _t, _e, _l), a, b in zip(sd, m, im):
        if b.startswith('ok') and not py_scan(text):
            report(ctx, {'kind': 'parse', 'text': text, 'limit': None, 'stream': 'surrogates', 'line': 'jparse %s' % hx(text)},
                   'impl=' + b[:200], 'rejected or paired', cls='lone-surrogate', failing_input=False,
                   what='accepted a text with an unpaired surrogate escape (allowed by RFC, but the theorems say it is rejected)')
    ctx.sample({'stream': 'surrogates', 'text': sd[0][0], 'model': m[0][:80], 'impl': im[0][:80]})

    # 3c. allocation: bytes really requested by Value::parse <= the model's meter <= 1024 * characters (json_parse_alloc_linear)
    sizes_m, sizes_i = ctx.both(['jsizes'])
    if sizes_m[0] != sizes_i[0]:
        report(ctx, {'kind': 'sizes', 'line': 'jsizes'}, 'impl size_of Value, (String, Value) = ' + sizes_i[0],
               'model VALUE_SIZE MEMBER_SIZE = ' + sizes_m[0], cls='alloc-meter', failing_input=False,
               what='the element sizes assumed by the allocation meter differ from the build')
    acases = [c[0] for c in corpus_alloc + sd + docs if c[3] is None][:(200000 if thorough else 25000)]
    acases += ['[' * k for k in (1, 10, 255, 256, 257, 1000)] + ['[[],' * 200, '{"":' * 300, '"' + 'a' * 5000, '"' + '\\u00e9' * 500 + '"',
                                                                 '[' + '{},' * 500 + '{}]', '[' + '"",' * 500 + '""]', ' ' * 3000 + '1']
    worst = check_alloc(ctx, acases)
    ctx.extra['alloc_worst_bytes_per_input_byte'] = round(worst, 1)

    # 3d. extraction spot-check: the same cases inside Coq
    pick = [c[0] for c in docs if len(c[0]) <= 120 and c[3] is None]
    coq_crosscheck(ctx, [t for t, _tag, _e in corpus[:12]] + pick[:14] + pick[-14:])

    # 4. random values through the serialisers and back
    vals = serial_values(ctx)
    rng = ctx.rng

    def indents(v):
        if vdepth(v) > 64:
            # output size is indent * depth^2 / 2 and both serialisers copy it once per level: keep deep values narrow
            return [None, 0, rng.choice([1, 2])] + ([rng.randint(3, 8)] if thorough and rng.random() < 0.1 else [])
        if thorough:
            return [None] + list(range(0, 9))
        return [None, rng.randint(0, 8), rng.choice([0, 1, 2, 4, 8])]
    run_serial(ctx, vals, indents, max_depth)
    ctx.sample({'stream': 'serialise', 'value': encode_value(vals[-1], lambda l: l)[:160]})
