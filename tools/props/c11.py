"""C11 — WebSocket endpoint: model (WsMessage.v, proved against the script semantics of WsMessageSpec.v) vs the real
`WebsocketStream` over loopback sockets (recv / recv_nonblocking / send / Drop) and the real opening handshake through
`websocket_handler` on a `humphrey::App`; plus an independent Python RFC 6455 reference (script semantics, strict frame
parser for everything the server wrote, hashlib/base64 for the accept value).

Streams: corpus/C11 -> bounded-exhaustive (every opcode pair at every split point of the first header, every k = bytes
available at a non-blocking read in 0..4) -> structured random scripts (1..12 frames, fragmentation 1..5 with control
frames interleaved, payloads 0..70 KiB, arbitrary keys; endings: client close, server drop, abrupt disconnect; delivery:
whole, byte-wise, split inside header / extended length / key, random) plus a malformed stream (continuation first,
control frames with FIN=0 or > 125 bytes, unmasked frames, reserved bits, reserved opcodes, truncation)."""
import base64
import hashlib
import json
import os
import threading

import hv
from hv import hx

RULE = ('client scripts of 1..12 frames over {text, binary, continuation, ping, pong, close}: messages cut into 1..5 fragments '
        '(empty fragments included) with ping/pong/close interleaved, payloads 0..200 / boundary {125,126,127,65535,65536} / up to '
        '70 KiB, text valid and invalid UTF-8, keys zero / one non-zero byte / random; endings client close (with and without '
        'status code), server drop after n messages, half-close at a frame boundary or inside a frame, full close; delivery '
        'whole / one write per frame / byte-wise with pauses / cut inside the 2-byte header, the extended length and the key / '
        'random cuts; blocking recv with and without echo (send), choreographed recv_nonblocking with k = 0,1,2,3,.. bytes '
        'available at each poll, free-running polling while the client trickles; handshakes through a real App with keys over '
        'printable ASCII and UTF-8, empty, 1..4096 bytes, name case variants, duplicate and missing key header; malformed stream: '
        'continuation first, differing opcodes inside a message, control frames with FIN=0 / 126+ bytes, unmasked frames, RSV bits, '
        'non-minimal lengths, reserved opcodes; non-trivial = fragmented message, or control frame answered, or split inside a header, '
        'or poll with k = 1')
ASSUMPTIONS = ['the client keeps reading, so the server\'s writes succeed (WriteError is outside the model)',
               'choreographed non-blocking plans: a recv_nonblocking call is started only after the bytes meant to be available have '
               'become readable on the server socket (peek), and the client writes again only after the call has returned or is '
               'known to be blocked inside a frame; blocking plans do not depend on timing',
               'a client starts sending frames only after it has read the 101 response (RFC 6455 4.1); bytes sent together with '
               'the HTTP request are subject to known finding F01 of C01']
TRUSTED_EXTRA = ['tools/props/c11.py: independent Python RFC 6455 reference (script semantics, strict parser of the server\'s '
                 'output, hashlib.sha1 + base64 for Sec-WebSocket-Accept)']

GUID = b'258EAFA5-E914-47DA-95CA-C5AB0DC85B11'
CONT, TEXT, BIN, CLOSE, PING, PONG = 0, 1, 2, 8, 9, 10
OPCODES = [CONT, TEXT, BIN, CLOSE, PING, PONG]
ALLOC_SLACK = 16384      # thread bookkeeping, result strings, socket-side buffers of the harness itself


# ---------------------------------------------------------------------------------------------------
# RFC 6455 reference

def py_xor(key, data):
    if not data or key == b'\0\0\0\0':
        return bytes(data)
    n = len(data)
    k = (key * (n // 4 + 1))[:n]
    return (int.from_bytes(data, 'big') ^ int.from_bytes(k, 'big')).to_bytes(n, 'big')


class Fr:
    """a client frame"""
    __slots__ = ('op', 'fin', 'payload', 'key', 'mask', 'rsv', 'form')

    def __init__(self, op, payload=b'', fin=1, key=b'\x37\xfa\x21\x3d', mask=True, rsv=0, form=None):
        self.op, self.fin, self.payload, self.key, self.mask, self.rsv, self.form = op, fin, payload, key, mask, rsv, form

    def wire(self):
        n = len(self.payload)
        out = bytearray([(self.fin << 7) | (self.rsv << 4) | self.op])
        m = 0x80 if self.mask else 0
        form = self.form
        if form is None:
            form = 0 if n < 126 else (2 if n < 65536 else 8)
        if form == 0:
            out.append(m | n)
        elif form == 2:
            out.append(m | 126)
            out += n.to_bytes(2, 'big')
        else:
            out.append(m | 127)
            out += n.to_bytes(8, 'big')
        if self.mask:
            out += self.key + py_xor(self.key, self.payload)
        else:
            out += self.payload
        return bytes(out)

    def header_len(self):
        n = len(self.payload)
        form = self.form if self.form is not None else (0 if n < 126 else (2 if n < 65536 else 8))
        return 2 + form + (4 if self.mask else 0)

    def desc(self):
        return [self.op, self.fin, self.payload.hex(), self.key.hex(), int(self.mask), self.rsv, self.form]

    @staticmethod
    def of(d):
        return Fr(d[0], bytes.fromhex(d[2]), d[1], bytes.fromhex(d[3]), bool(d[4]), d[5], d[6])


def script_ok(frames):
    """RFC 6455 5.4 / 5.5: data frames (first, non-fin) cont* (cont, fin) or single; control frames FIN, <= 125 bytes,
    anywhere; masked, no reserved bits, shortest length form"""
    open_ = False
    for f in frames:
        if not f.mask or f.rsv or f.form is not None:
            return False
        if f.op in (CLOSE, PING, PONG):
            if not f.fin or len(f.payload) > 125:
                return False
        elif f.op == CONT:
            if not open_:
                return False
            open_ = not f.fin
        else:
            if open_:
                return False
            open_ = not f.fin
    return True


def expected(frames):
    """what a well-formed script means: (messages [(is_text, payload)], reply frames [(op, payload)], closed)"""
    msgs, replies = [], []
    cur = None
    for f in frames:
        if f.op == CLOSE:
            replies.append((CLOSE, f.payload))
            return msgs, replies, True
        if f.op == PING:
            replies.append((PONG, f.payload))
        elif f.op == PONG:
            pass
        else:
            if f.op != CONT:
                cur = [f.op == TEXT, b'']
            cur[1] += f.payload
            if f.fin:
                msgs.append((cur[0], cur[1]))
                cur = None
    return msgs, replies, False


def digest(b):
    if len(b) <= 48:
        return 'h' + b.hex()
    h = int.from_bytes(b, 'big') % 4294967291
    return '%d:%08x:%s:%s' % (len(b), h, b[:16].hex(), b[-8:].hex())


def utf8_ok(b):
    try:
        b.decode('utf-8')
        return True
    except UnicodeDecodeError:
        return False


def show_msg(is_text, payload):
    return ('T' if utf8_ok(payload) else 't') + ':' + digest(payload) if is_text else 'B:' + digest(payload)


def parse_server_frames(data):
    """strict parser of what a server may send: unmasked, no reserved bits, defined opcode, shortest length form.
    -> (frames [(fin, op, payload)], error or None)"""
    out, pos, n = [], 0, len(data)
    while pos < n:
        if n - pos < 2:
            return out, 'truncated header at offset %d' % pos
        h0, h1 = data[pos], data[pos + 1]
        if h0 & 0x70:
            return out, 'reserved bits set at offset %d' % pos
        op = h0 & 15
        if op not in OPCODES:
            return out, 'opcode %d at offset %d' % (op, pos)
        if h1 & 0x80:
            return out, 'masked frame from the server at offset %d' % pos
        ln = h1 & 127
        p = pos + 2
        if ln == 126:
            if n - p < 2:
                return out, 'truncated length at offset %d' % pos
            ln = int.from_bytes(data[p:p + 2], 'big')
            p += 2
            if ln < 126:
                return out, 'non-minimal 16-bit length at offset %d' % pos
        elif ln == 127:
            if n - p < 8:
                return out, 'truncated length at offset %d' % pos
            ln = int.from_bytes(data[p:p + 8], 'big')
            p += 8
            if ln < 65536 or ln >= 2 ** 63:
                return out, 'non-minimal / invalid 64-bit length at offset %d' % pos
        if n - p < ln:
            return out, 'truncated payload at offset %d (%d of %d bytes)' % (pos, n - p, ln)
        out.append((h0 >> 7, op, data[p:p + ln]))
        pos = p + ln
    return out, None


def server_frame(op, payload):
    return Fr(op, payload, 1, b'\0\0\0\0', mask=False).wire()


# ---------------------------------------------------------------------------------------------------
# generators

def rb(rng, n):
    return rng.randbytes(n) if hasattr(rng, 'randbytes') else bytes(rng.getrandbits(8) for _ in range(n))


def rand_key(rng):
    r = rng.random()
    if r < 0.1:
        return b'\0\0\0\0'
    if r < 0.25:
        k = bytearray(4)
        k[rng.randrange(4)] = rng.randrange(1, 256)
        return bytes(k)
    return rb(rng, 4)


def rand_len(rng, big_ok):
    r = rng.random()
    if r < 0.15:
        return 0
    if r < 0.6:
        return rng.randrange(1, 200)
    if r < 0.75:
        return rng.choice([124, 125, 126, 127, 128, 255, 256, 1000, 4096, 8191, 8192])
    if r < 0.93 or not big_ok:
        return rng.randrange(200, 6000)
    return rng.choice([65535, 65536, 65537, 70 * 1024, rng.randrange(20000, 70 * 1024 + 1)])


TEXT_UNITS = ['hello', ' ', 'wörld', '€', '\U0001F600', 'x', '{"a":1}', '\n', '日本', 'a' * 40]


def rand_text(rng, n):
    s = ''
    while len(s.encode()) < n:
        s += rng.choice(TEXT_UNITS)
    b = s.encode()[:n]
    while not utf8_ok(b):       # cut inside a character: shorten to a boundary, pad with ASCII
        b = b[:-1]
    return b + b'.' * (n - len(b))


def rand_ctrl(rng, allow_close=False):
    op = rng.choice([PING, PING, PONG, CLOSE] if allow_close else [PING, PING, PONG])
    n = rng.choice([0, 0, 1, 2, 5, 40, 124, 125]) if rng.random() < 0.8 else rng.randrange(0, 126)
    if op == CLOSE:
        p = b'' if rng.random() < 0.3 else (rng.choice([1000, 1001, 1002, 1008, 1011, 3000, 4999]).to_bytes(2, 'big') +
                                            rand_text(rng, min(n, 123)))
    else:
        p = rb(rng, n)
    return Fr(op, p, 1, rand_key(rng))


def rand_message(rng, big_ok, maxfrags=5):
    """-> list of frames: one message in 1..5 fragments with control frames interleaved"""
    is_text = rng.random() < 0.55
    n = rand_len(rng, big_ok)
    if is_text:
        payload = rand_text(rng, n) if rng.random() < 0.9 else rb(rng, n)
    else:
        payload = rb(rng, n) if rng.random() < 0.85 else rand_text(rng, n)
    k = rng.choice([1, 1, 1, 2, 2, 3, 4, 5])
    k = min(k, maxfrags)
    cuts = sorted(rng.randrange(0, len(payload) + 1) for _ in range(k - 1))
    parts = [payload[a:b] for a, b in zip([0] + cuts, cuts + [len(payload)])]
    out = []
    for i, p in enumerate(parts):
        out.append(Fr(TEXT if is_text else BIN, p, int(i == len(parts) - 1), rand_key(rng)) if i == 0 else
                   Fr(CONT, p, int(i == len(parts) - 1), rand_key(rng)))
        if i < len(parts) - 1:
            while rng.random() < 0.45:
                out.append(rand_ctrl(rng))
    return out


def rand_script(rng, big_ok=True, maxframes=12, close_p=0.5):
    """well-formed script of 1..maxframes frames; -> (frames, ends_with_close)"""
    frames = []
    target = rng.randint(1, maxframes)
    while len(frames) < target:
        r = rng.random()
        if r < 0.6:
            room = target - len(frames)
            m = rand_message(rng, big_ok and not any(len(f.payload) > 60000 for f in frames), maxfrags=max(1, min(5, room)))
            if len(frames) + len(m) > maxframes:
                m = rand_message(rng, False, maxfrags=1)
            frames += m
        else:
            frames.append(rand_ctrl(rng))
    frames = frames[:maxframes]
    # do not leave a message open because of the cut above
    while frames and not script_closed(frames):
        frames.pop()
    if not frames:
        frames = rand_message(rng, False, maxfrags=1)
    closes = rng.random() < close_p
    if closes:
        if len(frames) >= maxframes:
            frames.pop()
            while frames and not script_closed(frames):
                frames.pop()
        c = rand_ctrl(rng, True)
        c.op = CLOSE
        if len(c.payload) == 1:
            c.payload = b''
        frames.append(c)
    return frames, closes


def script_closed(frames):
    open_ = False
    for f in frames:
        if f.op in (TEXT, BIN):
            open_ = not f.fin
        elif f.op == CONT:
            open_ = not f.fin
    return not open_


def segments(rng, frames, style):
    """-> list of byte strings (client writes), their concatenation = the wire bytes of the frames"""
    wires = [f.wire() for f in frames]
    data = b''.join(wires)
    if style == 'whole' or not data:
        return [data] if data else []
    if style == 'frames':
        return wires
    if style == 'bytewise':
        return [data[i:i + 1] for i in range(len(data))]
    cuts = set()
    if style == 'headers':
        # inside the 2-byte header, the extended length, the key of every frame; one cut in the payload
        pos = 0
        for f, w in zip(frames, wires):
            hl = f.header_len()
            cuts.add(pos + 1)
            if hl > 6:
                cuts.add(pos + rng.randrange(3, hl - 4 + 1))
            if f.mask:
                cuts.add(pos + hl - rng.randrange(1, 4))
            if len(w) > hl + 1 and rng.random() < 0.5:
                cuts.add(pos + rng.randrange(hl + 1, len(w)))
            pos += len(w)
    elif style == 'hdrbytes':
        # byte-wise through every header, payload in bulk
        pos = 0
        for f, w in zip(frames, wires):
            for i in range(1, f.header_len() + 1):
                cuts.add(pos + i)
            pos += len(w)
    else:  # random
        for _ in range(rng.randint(1, 8)):
            cuts.add(rng.randrange(1, max(2, len(data))))
    cuts = sorted(c for c in cuts if 0 < c < len(data))
    return [data[a:b] for a, b in zip([0] + cuts, cuts + [len(data)])]


def plan_of(rng, segs, pause=True):
    """segments -> plan string; pauses of a few ms between segments (at most ~60 per plan)"""
    items = []
    budget = 60
    for i, s in enumerate(segs):
        if i and pause and budget > 0 and (len(segs) <= 60 or rng.random() < 60.0 / len(segs)):
            items.append('p%d' % rng.choice([1, 1, 2, 3, 5]))
            budget -= 1
        items.append('h' + s.hex())
    return ','.join(items) if items else '-'


# ---------------------------------------------------------------------------------------------------
# non-blocking choreography: an independent simulation of recv_nonblocking over arrival marks

class NbSim:
    """frames with known boundaries (+ an optional truncated tail); polls are simulated as the RFC reading of the API:
    nothing yet iff no byte of the next frame has arrived and no data frame of the message has been collected"""

    def __init__(self, frames, tail=b''):
        self.frames = frames
        self.wires = [f.wire() for f in frames]
        self.bounds = [0]
        for w in self.wires:
            self.bounds.append(self.bounds[-1] + len(w))
        self.data = b''.join(self.wires) + tail
        self.total = len(self.data)
        self.steps = []
        self.arrived = 0
        self.fin_sent = False
        self.idx = 0            # next frame to read
        self.results = []
        self.out = b''
        self.dead = False
        self.ks = []            # k at every non-blocking header read

    # one poll; `feed` is called when the poll is blocked and must return after writing more (or sending FIN)
    def poll(self, feed):
        # q<k>: the harness starts the call once the k unread bytes are readable on the server side; j: it waits for the
        # result before the client writes again (so the outcome does not depend on thread scheduling)
        pos0 = self.bounds[self.idx] if self.idx < len(self.bounds) else self.total
        self.steps.append('q%d' % max(0, self.arrived - pos0))
        self._poll(feed)
        self.steps.append('j')

    def _poll(self, feed):
        acc = None
        while True:
            pos = self.bounds[self.idx] if self.idx < len(self.bounds) else self.total
            if acc is None:
                k = self.arrived - pos
                self.ks.append(k)
                if k == 0:
                    self.results.append('N')
                    return
            # the frame is read (blocking from its second byte on)
            if self.idx >= len(self.frames):
                # the truncated tail (or nothing): wait for the rest, EOF -> read error
                while not self.fin_sent:
                    feed(self, self.total)
                self.results.append('E:read')
                self.dead = True
                return
            end = self.bounds[self.idx + 1]
            while self.arrived < end:
                if self.fin_sent:
                    self.results.append('E:read')
                    self.dead = True
                    return
                feed(self, end)
            f = self.frames[self.idx]
            self.idx += 1
            if f.op == PING:
                self.out += server_frame(PONG, f.payload)
            elif f.op == PONG:
                pass
            elif f.op == CLOSE:
                self.out += server_frame(CLOSE, f.payload)
                self.results.append('E:closed')
                self.dead = True
                return
            else:
                if acc is None:
                    acc = [f.op == TEXT, b'']
                acc[1] += f.payload
                if f.fin:
                    self.results.append(show_msg(acc[0], acc[1]))
                    return

    def write_to(self, upto):
        upto = min(upto, self.total)
        if upto > self.arrived:
            self.steps.append('w' + self.data[self.arrived:upto].hex())
            self.arrived = upto

    def fin(self):
        if not self.fin_sent:
            self.steps.append('f')
            self.fin_sent = True


def nb_case(rng, frames, tail=b'', style=None):
    """-> (steps string, expected polls, expected out, ks)"""
    sim = NbSim(frames, tail)
    style = style or rng.choice(['k', 'k', 'trickle', 'burst'])

    def feed(s, need):
        # the poll in flight needs bytes up to `need`
        if s.arrived >= s.total:
            s.fin()
            return
        r = rng.random()
        if len(s.steps) > 90:
            s.write_to(s.total)
        elif need - s.arrived > 12 and rng.random() < 0.8:
            s.write_to(need - rng.choice([0, 0, 1, 2, 5]))        # the bulk of a payload in one write
        elif style == 'trickle':
            s.write_to(s.arrived + rng.choice([1, 1, 2, 3, 7]))
        elif r < 0.3:
            s.write_to(s.arrived + 1)
        elif r < 0.5:
            s.write_to(max(s.arrived + 1, need - 1))
        elif r < 0.8:
            s.write_to(need)
        elif r < 0.9:
            s.write_to(need + rng.choice([1, 2, 3]))
        else:
            s.write_to(s.total)

    guard = 0
    while not sim.dead and guard < 400:
        guard += 1
        pos = sim.bounds[sim.idx] if sim.idx < len(sim.bounds) else sim.total
        if sim.arrived >= sim.total and pos >= sim.total:
            break
        # choose how many bytes are available when the next poll starts
        if style == 'burst':
            sim.write_to(sim.total)
        else:
            r = rng.random()
            if r < 0.25:
                k = 0
            elif r < 0.55:
                k = 1
            elif r < 0.7:
                k = 2
            elif r < 0.8:
                k = rng.choice([3, 4, 5, 6, 7])
            else:
                nxt = sim.bounds[sim.idx + 1] if sim.idx + 1 < len(sim.bounds) else sim.total
                k = rng.choice([nxt - pos - 1, nxt - pos, nxt - pos + 1, nxt - pos + 2, sim.total - pos])
            sim.write_to(pos + max(0, k))
        sim.poll(feed)
    if not sim.dead:
        sim.write_to(sim.total)
        if sim.arrived > (sim.bounds[sim.idx] if sim.idx < len(sim.bounds) else sim.total) or rng.random() < 0.5:
            # drain what is left with polls
            while not sim.dead and guard < 500:
                guard += 1
                before = len(sim.results)
                sim.poll(feed)
                if sim.results[before:] == ['N']:
                    break
        sim.fin()
        if not sim.dead:
            sim.poll(feed)
    else:
        sim.write_to(sim.total)
        sim.fin()
    closed = bool(sim.results) and sim.results[-1] == 'E:closed'
    out = sim.out + (b'' if closed else server_frame(CLOSE, b''))
    return ','.join(sim.steps), ';'.join(sim.results), out, sim.ks


# ---------------------------------------------------------------------------------------------------
# handshake

def http_request(key, name=b'Sec-WebSocket-Key', extra=b'', upgrade=b'websocket', path=b'/ws'):
    head = b'GET ' + path + b' HTTP/1.1\r\nHost: localhost\r\n'
    if upgrade is not None:
        head += b'Upgrade: ' + upgrade + b'\r\nConnection: Upgrade\r\n'
    if key is not None:
        head += name + b': ' + key + b'\r\n'
    head += extra + b'Sec-WebSocket-Version: 13\r\n\r\n'
    return head


def accept_of(key):
    return base64.b64encode(hashlib.sha1(key + GUID).digest())


def parse_101(resp):
    """-> (status code, {lower name: [values]}) or None"""
    if not resp.endswith(b'\r\n\r\n'):
        return None
    lines = resp[:-4].split(b'\r\n')
    st = lines[0].split(b' ', 2)
    if len(st) < 3 or st[0] != b'HTTP/1.1' or not st[1].isdigit():
        return None
    hs = {}
    for l in lines[1:]:
        if b': ' not in l:
            return None
        n, v = l.split(b': ', 1)
        hs.setdefault(n.lower(), []).append(v)
    return int(st[1]), hs, st[2]


def rand_hs_key(rng, i):
    fixed = [b'dGhlIHNhbXBsZSBub25jZQ==', b'', b'x', b'a b', b'!"#$%&\'()*+,-./:;<=>?@[\\]^_`{|}~', 'clé-€-\U0001F600'.encode(),
             b'A' * 4096, b'0123456789' * 100, b'=', b'====', b'dGhlIHNhbXBsZSBub25jZQ', b':', b'k: v', b'258EAFA5-E914-47DA-95CA-C5AB0DC85B11']
    if i < len(fixed):
        return fixed[i]
    # every key length 1..192 once (so that key + the 36-byte GUID meets every SHA-1 padding boundary: 55/56/63/64 mod 64 are
    # key lengths 19/20/27/28, 83/84/91/92, ...), then lengths drawn at random
    if i - len(fixed) < 192:
        n = i - len(fixed) + 1
    else:
        n = rng.choice([1, 2, 16, 19, 20, 22, 24, 24, 24, 27, 28, 55, 56, 64, 83, 84, 91, 92, 119, 120, 147, 300, 2000, rng.randint(1, 400)])
    if rng.random() < 0.5:
        return base64.b64encode(rb(rng, n))[:max(1, n)]
    k = bytearray(rng.randrange(0x21, 0x7f) if rng.random() < 0.9 else 0x20 for _ in range(n))
    k[0] = rng.randrange(0x21, 0x7f)          # the value is trimmed by the header parser: no blank at either end
    k[-1] = rng.randrange(0x21, 0x7f)
    return bytes(k)


# ---------------------------------------------------------------------------------------------------
# running lines on 16 runner processes

def run_sharded(binary, lines, weights=None, shards=16, timeout=1800):
    """each runner process handles its lines sequentially; lines are dealt out by decreasing weight"""
    n = len(lines)
    if n == 0:
        return []
    shards = max(1, min(shards, n))
    weights = weights or [1] * n
    order = sorted(range(n), key=lambda i: -weights[i])
    groups = [[] for _ in range(shards)]
    load = [0] * shards
    for i in order:
        k = load.index(min(load))
        groups[k].append(i)
        load[k] += weights[i]
    results = [None] * shards

    def work(k):
        results[k] = hv._run_shard(binary, [lines[i] for i in groups[k]], timeout)

    ths = [threading.Thread(target=work, args=(k,)) for k in range(shards)]
    for t in ths:
        t.start()
    for t in ths:
        t.join()
    out = [None] * n
    for k in range(shards):
        for i, o in zip(groups[k], results[k]):
            out[i] = o
    return out


def kv(line):
    """'a=1 b=2' -> dict"""
    d = {}
    for tok in line.split(' '):
        if '=' in tok:
            a, b = tok.split('=', 1)
            d[a] = b
    return d


# ---------------------------------------------------------------------------------------------------
# cases

class Case:
    __slots__ = ('kind', 'line', 'frames', 'meta', 'weight', 'tag')

    def __init__(self, kind, line, frames=None, meta=None, weight=1, tag=''):
        self.kind, self.line, self.frames, self.meta, self.weight, self.tag = kind, line, frames, meta or {}, weight, tag

    def to_json(self):
        return {'kind': self.kind, 'line': self.line, 'frames': [f.desc() for f in self.frames] if self.frames is not None else None,
                'meta': self.meta, 'tag': self.tag}

    @staticmethod
    def of_json(d):
        fr = [Fr.of(x) for x in d['frames']] if d.get('frames') is not None else None
        return Case(d['kind'], d['line'], fr, d.get('meta') or {}, 1, d.get('tag', 'replay'))


def run_case(frames, rng, echo=False, limit=None, end=None, style=None, tag='', tail=b'', pause=True):
    """blocking-mode case"""
    style = style or rng.choice(['whole', 'frames', 'headers', 'headers', 'hdrbytes', 'random', 'bytewise'])
    data_len = sum(len(f.payload) + 14 for f in frames)
    if style == 'bytewise' and data_len > 400:
        style = 'hdrbytes'
    segs = segments(rng, frames, style)
    if tail:
        segs.append(tail)
    plan = plan_of(rng, segs, pause)
    if end is None:
        end = 'fin'
    line = 'c11_run %d %s %s %s' % (int(echo), '-' if limit is None else str(limit), end, plan)
    w = 1 + plan.count(',p') * 3 + data_len // 20000
    return Case('run', line, frames, {'echo': int(echo), 'limit': limit, 'end': end, 'style': style, 'tail': tail.hex()}, w, tag)


FPR_FILE = os.path.join(hv.V, 'tools/props/c11_fingerprints.json')


def drifted(ctx):
    """DESIGN section 2, source-drift escalation: the model was written against a known text of the anchored files; when one
    of them differs, the quick tier runs a sample five times as large (a changed fingerprint is not an alarm)."""
    try:
        known = json.load(open(FPR_FILE))
    except OSError:
        return []
    out = []
    for rel, h in known.items():
        try:
            cur = hashlib.sha256(open(os.path.join(hv.REPO, rel), 'rb').read()).hexdigest()
        except OSError:
            cur = None
        if cur != h:
            out.append(rel)
    return out


def gen_cases(ctx):
    rng = ctx.rng
    thorough = ctx.tier == 'thorough'
    scale = 1
    if not thorough:
        d = drifted(ctx)
        if d:
            scale = 5
            ctx.notes.append('source drift: %s differ(s) from the text the model was written against; the quick tier runs a '
                             'sample 5 times as large' % ', '.join(d))
            ctx.count('drift-escalation', len(d))

    # ---- (a) bounded-exhaustive: every pair of opcodes x FIN, the stream cut at every point of the first header ----
    small = []
    for a in OPCODES:
        for afin in (0, 1):
            for b in OPCODES:
                fa = Fr(a, b'A' if a != CLOSE else b'\x03\xe8', afin, rand_key(rng))
                fb = Fr(b, b'bb' if b != CLOSE else b'\x03\xe9!', 1, rand_key(rng))
                small.append([fa, fb])
    for i, fs in enumerate(small):
        w0 = fs[0].wire()
        data = b''.join(f.wire() for f in fs)
        # quick: one cut point of the first frame per pair (all positions covered across the pairs); thorough: every cut
        for cut in (range(1, len(data)) if thorough else [(i % (len(w0) - 1)) + 1]):
            plan = 'h%s,p2,h%s' % (data[:cut].hex(), data[cut:].hex())
            yield (Case('run', 'c11_run %d - fin %s' % (i % 2, plan), fs, {'echo': i % 2, 'limit': None, 'end': 'fin',
                                                                                    'style': 'cut%d' % cut, 'tail': ''}, 2, 'exh-pairs'))
    # every k = bytes available at the first non-blocking read, for every opcode
    for op in OPCODES:
        for k in range(0, 10 if thorough else 5):
            f = Fr(op, b'hi' if op != CLOSE else b'\x03\xe8', 1, rand_key(rng))
            g = Fr(TEXT, b'next', 1, rand_key(rng))
            sim = NbSim([f, g])
            sim.write_to(k)
            sim.poll(lambda s, need: s.write_to(need + (1 if k % 2 else 0)))
            for _ in range(3):
                if sim.dead:
                    break
                sim.write_to(sim.total)
                sim.poll(lambda s, need: s.write_to(s.total))
            sim.write_to(sim.total)
            sim.fin()
            if not sim.dead:
                sim.poll(lambda s, need: None)
            closed = sim.results and sim.results[-1] == 'E:closed'
            yield (Case('nb', 'c11_nb ' + ','.join(sim.steps), [f, g],
                              {'polls': ';'.join(sim.results), 'out': (sim.out + (b'' if closed else server_frame(CLOSE, b''))).hex(),
                               'ks': sim.ks}, 4, 'exh-nb-k'))

    # ---- (b) structured random scripts, blocking ----
    n_run = 110000 if thorough else 600 * scale
    nbig = 0
    for i in range(n_run):
        big_ok = nbig < (400 if thorough else 16 * scale)
        frames, closes = rand_script(rng, big_ok)
        if any(len(f.payload) > 60000 for f in frames):
            nbig += 1
        msgs, _, _ = expected(frames)
        r = rng.random()
        echo = rng.random() < 0.3 and sum(len(f.payload) for f in frames) < 200000
        if closes:
            yield (run_case(frames, rng, echo=echo, end='wait', tag='close'))
        elif r < 0.35 and msgs:
            # server drop after n messages: the stream must stop where the n-th message ends... or go on (unread)
            n = rng.randint(1, len(msgs))
            yield (run_case(frames, rng, echo=echo, limit=n, end='wait', tag='drop'))
        elif r < 0.45:
            yield (run_case(frames, rng, echo=echo, limit=0, end='wait', tag='drop0'))
        elif r < 0.75:
            yield (run_case(frames, rng, echo=echo, end='fin', tag='eof'))
        elif r < 0.92:
            # abrupt: the last frame is cut
            last = frames[-1].wire()
            cut = rng.choice([1, 2, 3, len(last) - 1, rng.randrange(1, len(last))])
            cut = max(1, min(cut, len(last) - 1))
            yield (run_case(frames[:-1], rng, echo=echo, end='fin', tag='truncated', tail=last[:cut]))
        else:
            yield (run_case(frames, rng, echo=False, end='rst', tag='rst'))

    # ---- (c) malformed stream ----
    n_mal = 24000 if thorough else 200 * scale
    for i in range(n_mal):
        frames, closes = rand_script(rng, False, maxframes=8, close_p=0.3)
        kind = rng.choice(['cont-first', 'mixed-opcodes', 'ctrl-nofin', 'ctrl-big', 'unmasked', 'rsv', 'nonminimal', 'reserved-op',
                           'after-close', 'nested-start'])
        j = rng.randrange(len(frames))
        tail = b''
        if kind == 'cont-first':
            frames.insert(0, Fr(CONT, rb(rng, rng.randrange(0, 20)), rng.randrange(2), rand_key(rng)))
        elif kind == 'mixed-opcodes':
            for f in frames:
                if f.op == CONT and rng.random() < 0.7:
                    f.op = rng.choice([TEXT, BIN])
        elif kind == 'ctrl-nofin':
            frames.insert(j, Fr(rng.choice([PING, PONG, CLOSE]), rb(rng, 3), 0, rand_key(rng)))
        elif kind == 'ctrl-big':
            frames.insert(j, Fr(rng.choice([PING, PONG, CLOSE]), rb(rng, rng.choice([126, 127, 300, 65536])), 1, rand_key(rng)))
        elif kind == 'unmasked':
            for f in frames:
                if rng.random() < 0.6:
                    f.mask = False
        elif kind == 'rsv':
            frames[j].rsv = rng.randrange(1, 8)
        elif kind == 'nonminimal':
            f = frames[j]
            f.form = rng.choice([2, 8]) if len(f.payload) < 65536 else 8
        elif kind == 'reserved-op':
            frames = frames[:j]
            tail = bytes([0x80 | rng.choice([3, 4, 5, 6, 7, 11, 12, 13, 14, 15]), 0x80, 1, 2, 3, 4])
        elif kind == 'after-close':
            frames.insert(j, Fr(CLOSE, b'', 1, rand_key(rng)))
        elif kind == 'nested-start':
            frames.insert(j, Fr(rng.choice([TEXT, BIN]), rb(rng, 4), 0, rand_key(rng)))
        has_close = any(f.op == CLOSE for f in frames)
        yield (run_case(frames, rng, echo=rng.random() < 0.3, end='wait' if has_close else 'fin', tag='mal-' + kind, tail=tail))

    # ---- (d) non-blocking, choreographed ----
    n_nb = 40000 if thorough else 300 * scale
    for i in range(n_nb):
        frames, closes = rand_script(rng, i % 9 == 0, maxframes=rng.choice([2, 4, 6, 12]))
        if sum(len(f.payload) for f in frames) > 150000:
            frames = frames[:3]
            while frames and not script_closed(frames):
                frames.pop()
            if not frames:
                frames = rand_message(rng, False, 1)
        tail = b''
        if rng.random() < 0.15 and not any(f.op == CLOSE for f in frames):
            extra = rand_message(rng, False, 1)[0].wire()
            tail = extra[:rng.randrange(1, len(extra))]
        steps, polls, out, ks = nb_case(rng, frames, tail)
        w = 2 + steps.count('w') // 4 + steps.count('q')
        yield (Case('nb', 'c11_nb ' + steps, frames, {'polls': polls, 'out': out.hex(), 'ks': ks, 'tail': tail.hex()}, w, 'nb'))

    # ---- (e) non-blocking, free-running ----
    n_free = 12000 if thorough else 100 * scale
    for i in range(n_free):
        frames, closes = rand_script(rng, False, maxframes=rng.choice([3, 6, 12]))
        style = rng.choice(['headers', 'hdrbytes', 'random', 'frames', 'bytewise'])
        if style == 'bytewise' and sum(len(f.payload) + 14 for f in frames) > 300:
            style = 'headers'
        plan = plan_of(rng, segments(rng, frames, style))
        yield (Case('nbfree', 'c11_nbfree %d %s' % (rng.choice([1, 1, 2, 5]), plan), frames, {'style': style},
                          3 + plan.count(',p') * 3, 'nbfree'))

    # ---- (f) handshakes through the real App ----
    n_hs = 14000 if thorough else 120 * scale
    post_frames = [Fr(TEXT, b'hi', 1, b'\x01\x02\x03\x04'), Fr(PING, b'p', 1, b'\xff\x00\xff\x00'), Fr(CLOSE, b'\x03\xe8', 1, b'\x0a\x0b\x0c\x0d')]
    post = b''.join(f.wire() for f in post_frames)
    for i in range(n_hs):
        key = rand_hs_key(rng, i)
        r = rng.random()
        name, extra, upgrade, expect = b'Sec-WebSocket-Key', b'', b'websocket', 'accept'
        if i >= 14:
            if r < 0.12:
                key, expect = None, 'refused'
            elif r < 0.24:
                name = rng.choice([b'sec-websocket-key', b'SEC-WEBSOCKET-KEY', b'Sec-Websocket-Key', b'sEc-wEbSoCkEt-kEy'])
            elif r < 0.32:
                other = rand_hs_key(rng, 100)
                extra = b'Sec-WebSocket-Key: ' + other + b'\r\n'      # a second key header: the first one counts
            elif r < 0.38:
                upgrade, expect = rng.choice([b'WebSocket', b'h2c', None]), 'plain'
        req = http_request(key, name, extra, upgrade)
        yield (Case('hs', 'c11_hs %s %s' % (hx(req), hx(post)), post_frames,
                          {'key': key.hex() if key is not None else None, 'expect': expect}, 3, 'hs-' + expect))


def load_corpus():
    d = hv.V + '/corpus/C11'
    out = []
    if not os.path.isdir(d):
        return out
    for fn in sorted(os.listdir(d)):
        if not fn.endswith('.jsonl'):
            continue
        for line in open(os.path.join(d, fn), encoding='utf-8'):
            line = line.strip()
            if not line or line.startswith('#'):
                continue
            c = Case.of_json(json.loads(line))
            c.tag = 'corpus'
            c.weight = 3
            out.append(c)
    return out


# ---------------------------------------------------------------------------------------------------
# checking

def check_server_bytes(ctx, case_json, out, what_prefix):
    """everything the server wrote parses as well-formed unmasked frames (holds for every input)"""
    frames, err = parse_server_frames(out)
    if err:
        ctx.report(case_json, 'server bytes %s…: %s' % (out[:40].hex(), err), 'a sequence of well-formed unmasked frames',
                   cls='server-bytes-malformed', failing_input=True,
                   what='%s: the bytes written by the server (%s…, %d bytes) are not a sequence of well-formed unmasked frames: %s'
                        % (what_prefix, out[:24].hex(), len(out), err))
        return None
    return frames


def describe(frames, limit=8):
    names = {0: 'cont', 1: 'text', 2: 'bin', 8: 'close', 9: 'ping', 10: 'pong'}
    s = ['%s%s[%d]' % (names.get(f.op, str(f.op)), '' if f.fin else '-', len(f.payload)) for f in frames[:limit]]
    return ' '.join(s) + (' …' if len(frames) > limit else '')


def oracle_run(c):
    """expected observable of a blocking case with a well-formed script: (res string, out bytes) or None"""
    frames = c.frames
    if frames is None or not script_ok(frames) or c.tag.startswith('mal-'):
        return None
    msgs, replies, closed = expected(frames)
    limit, echo, tail = c.meta.get('limit'), c.meta.get('echo'), bytes.fromhex(c.meta.get('tail') or '')
    res, out = [], b''
    # replay the frames in order so that replies and echoes interleave as on the wire
    cur = None
    delivered = 0
    final = None
    if limit == 0:
        return '', server_frame(CLOSE, b'')
    for f in frames:
        if f.op == CLOSE:
            out += server_frame(CLOSE, f.payload)
            final = 'E:closed'
            break
        if f.op == PING:
            out += server_frame(PONG, f.payload)
        elif f.op == PONG:
            pass
        else:
            if f.op != CONT:
                cur = [f.op == TEXT, b'']
            cur[1] += f.payload
            if f.fin:
                res.append(show_msg(cur[0], cur[1]))
                if echo:
                    out += server_frame(TEXT if cur[0] else BIN, cur[1])
                cur = None
                delivered += 1
                if limit is not None and delivered >= limit:
                    final = ''
                    break
    if final is None:
        final = 'E:read'            # end of input (at a frame boundary or inside a frame)
    if final != 'E:closed':
        out += server_frame(CLOSE, b'')      # Drop sends the Close
    if final:
        res.append(final)
    return ';'.join(res), out


def core_of(kind, line_out):
    d = kv(line_out)
    if kind == 'run':
        return (d.get('res'), d.get('out'))
    if kind == 'nb':
        return (d.get('polls'), d.get('out'))
    return None


def old_behaviour(cases, model, impl):
    """for the cases on which the implementation differs from the model: does it behave like the model of the code as it
    was before the fixes F20 / F21?  -> {line: note}"""
    idx = [i for i, c in enumerate(cases) if c.kind in ('run', 'nb') and core_of(c.kind, model[i]) != core_of(c.kind, impl[i])]
    idx = idx[:200]
    if not idx:
        return {}
    lines = [cases[i].line.replace('c11_run ', 'c11_run_old ', 1).replace('c11_nb ', 'c11_nb_old ', 1) for i in idx]
    old = run_sharded(hv.MODEL_BIN, lines)
    notes = {}
    for i, o in zip(idx, old):
        c = cases[i]
        if core_of(c.kind, o) == core_of(c.kind, impl[i]):
            notes[c.line] = (' [this is exactly the behaviour of the code before fix %s: %s]' % (
                ('F20', 'replies / the drop-time Close written as the bare payload') if c.kind == 'run' else
                ('F21', 'a 1-byte non-blocking read taken as a complete header')))
    return notes


COQ_ERR = {'E:closed': 'Err 4', 'E:read': 'Err 1', 'E:opcode': 'Err 2'}


def coq_list(b):
    return '[' + '; '.join(str(x) for x in b) + ']'


def coq_crosscheck(ctx, cases, model):
    """a few dozen short cases are evaluated inside Coq (vm_compute) and must give what the extracted OCaml model printed"""
    goals = []
    for c, a in zip(cases, model):
        if len(goals) >= 40:
            break
        if c.kind == 'run' and len(c.line) < 400:
            d = kv(a)
            res = [r for r in d.get('res', '').split(';') if r]
            msgs, fin, ok = [], 'Ok tt', True
            for r in res:
                if r.startswith('E:'):
                    fin = COQ_ERR.get(r)
                    ok = ok and fin is not None
                elif r[2:3] == 'h':
                    msgs.append('mkMsg %s %s' % ('false' if r[0] == 'B' else 'true', coq_list(bytes.fromhex(r[3:]))))
                else:
                    ok = False
            if not ok:
                continue
            toks = c.line.split(' ')
            segs = [bytes.fromhex(t[1:]) for t in (toks[4].split(',') if len(toks) > 4 else []) if t.startswith('h') and len(t) > 1]
            chunks = '[' + '; '.join(coq_list(x) for x in segs) + ']'
            limit = 'None' if toks[2] == '-' else '(Some %s%%nat)' % toks[2]
            goals.append(('let o := serve %s %s %s in (s_msgs o, s_final o, concat (s_writes o)) = ([%s], %s, %s)' % (
                'true' if toks[1] == '1' else 'false', limit, chunks, '; '.join(msgs), fin, coq_list(bytes.fromhex(d.get('out', '')))), c))
    if not goals:
        return
    wd = hv.V + '/work'
    os.makedirs(wd, exist_ok=True)
    src = ['From Hv Require Import Prelude Stream Frame WsMessage.', 'Open Scope N_scope.']
    for k, (g, _) in enumerate(goals):
        src.append('Goal %s. Proof. vm_compute. reflexivity. Qed. (* case %d *)' % (g, k))
    open(wd + '/c11_cases.v', 'w').write('\n'.join(src) + '\n')
    rc, out = hv.sh('timeout 300 coqc -Q %s/theories Hv %s/c11_cases.v' % (hv.COQ, wd), timeout=400)
    ctx.count('coq-vm-crosscheck', len(goals))
    ctx.extra['extraction_crosscheck'] = {'cases': len(goals), 'ok': rc == 0,
                                          'cmd': 'coqc -Q coq/theories Hv work/c11_cases.v (vm_compute of serve inside Coq = output of '
                                                 'the extracted OCaml model)'}
    if rc != 0:
        import re
        mline = re.search(r'line (\d+)', out)
        k = int(mline.group(1)) - 3 if mline else 0
        case = goals[k][1].to_json() if 0 <= k < len(goals) else {'kind': 'crosscheck'}
        ctx.report(case, 'coqc: ' + out[-300:], 'vm_compute inside Coq = extracted model', cls='extraction-crosscheck',
                   failing_input=False, what='extracted OCaml model and vm_compute inside Coq disagree: ' + goals[k][0][:200])



def run(ctx):
    import itertools
    if ctx.replay:
        process(ctx, [Case.of_json(ctx.replay['case'])], set(), True)
        return
    corpus = load_corpus()
    ctx.count('corpus', len(corpus))
    # enumerated completely: every ordered pair of opcodes x FIN of the first frame (thorough: x every cut point of the
    # stream), and opcode x k bytes available at the first non-blocking read for k in 0..4 (thorough 0..9)
    ctx.exhaustive = True
    stream = itertools.chain(corpus, gen_cases(ctx))
    sampled = set()
    first = True
    while True:
        batch = list(itertools.islice(stream, 12000))
        if not batch:
            break
        process(ctx, batch, sampled, first)
        first = False
    io_adapters(ctx)


def io_adapters(ctx):
    """impl Read / impl Write for WebsocketStream: a handler that uses the std::io adapters instead of recv / send must see
    the same message payloads in the same order, answer control frames the same way, and everything it writes must again
    be well-formed frames carrying exactly the bytes written (text when they are UTF-8, else binary).  Differential on the
    implementation (recv/send session vs io session on the same client bytes) plus the strict frame parser."""
    rng = ctx.rng
    n = 400 if ctx.tier == 'thorough' else 40 * ctx.scale
    cases = []
    for i in range(n):
        frames, _closes = rand_script(rng, big_ok=(i % 10 == 0), maxframes=8, close_p=0.6)
        if not script_ok(frames):
            continue
        segs = segments(rng, frames, rng.choice(['whole', 'frames', 'headers', 'random']))
        plan = plan_of(rng, segs, True)
        cases.append((frames, i % 2, plan))
    l_recv = ['c11_run %d - fin %s' % (e, p) for _, e, p in cases]
    l_io = ['c11_io %d %s' % (e, p) for _, e, p in cases]
    ws = [1 + p.count(',p') * 3 for _, _, p in cases]
    a = run_sharded(hv.IMPL_BIN, l_recv, ws)
    b = run_sharded(hv.IMPL_BIN, l_io, ws)
    ctx.evaluations += 2 * len(cases)
    for (frames, echo, plan), x, y, line in zip(cases, a, b, l_io):
        ctx.count('io-adapter sessions')
        kx, ky = kv(x), kv(y)
        case = {'kind': 'io', 'line': line[:3000], 'frames': describe(frames)}
        if y in ('PANIC', 'DIED', 'TIMEOUT') or 'res' not in ky or 'res' not in kx:
            ctx.report(case, y[:200], x[:200], cls='io-adapter', failing_input=y in ('PANIC', 'DIED', 'TIMEOUT'),
                       what='session through the io adapters did not complete')
            continue
        # payloads delivered, in order (the io session cannot tell text from binary)
        px = [r.split(':', 1)[1] for r in kx['res'].split(';') if r[:2] in ('T:', 't:', 'B:')]
        py_ = [r.split(':', 1)[1] for r in ky['res'].split(';') if r.startswith('R:')]
        if px != py_:
            ctx.report(case, ky['res'][:300], kx['res'][:300], cls='io-adapter', failing_input=True,
                       what='io::Read on the WebSocket stream delivers other payloads than recv()')
            continue
        fx, ex = parse_server_frames(bytes.fromhex(kx.get('out', '')))
        fy, ey = parse_server_frames(bytes.fromhex(ky.get('out', '')))
        if ey is not None:
            ctx.report(case, 'server bytes: ' + ey, 'well-formed unmasked frames', cls='io-adapter', failing_input=True,
                       what='what the server wrote through io::Write is not a sequence of well-formed frames: ' + ey)
            continue
        if ex is None:
            # same frames on the wire, except that an echoed payload is typed by its content (Message::new)
            # (io::Write::write_all of an empty buffer never calls write: an empty message is not echoed through the adapter)
            norm = lambda fs, retype: [(fin, (1 if utf8_ok(pl) else 2) if (retype and op in (1, 2)) else op, pl) for fin, op, pl in fs
                                       if not (op in (1, 2) and pl == b'')]
            if norm(fx, True) != norm(fy, False):
                ctx.report(case, repr(fy)[:300], repr(norm(fx, True))[:300], cls='io-adapter', failing_input=True,
                           what='frames written through io::Write differ from those of the recv/send session')
                continue
        if len(px) >= 1:
            ctx.mark_nontrivial(('io', line[:200]))


def process(ctx, cases, sampled, first):
    rng = ctx.rng
    lines = [c.line for c in cases]
    model = run_sharded(hv.MODEL_BIN, lines, [c.weight for c in cases])
    impl = run_sharded(hv.IMPL_BIN, lines, [c.weight for c in cases])
    ctx.evaluations += len(lines)
    oldnote = old_behaviour(cases, model, impl)
    if first and not ctx.replay:
        coq_crosscheck(ctx, cases, model)
    for c, a, b in zip(cases, model, impl):
        cj = c.to_json()
        ctx.count(c.kind + ':' + c.tag)
        ka, kb = kv(a), kv(b)
        wellformed = c.frames is not None and script_ok(c.frames)
        if b in ('PANIC', 'DIED', 'TIMEOUT') or 'PANIC' in kb.get('res', '') + kb.get('polls', '') or 'HANG' in kb.get('res', '') + kb.get('polls', ''):
            ctx.report(cj, 'impl=' + b[:200], 'model=' + a[:200], cls='endpoint-crash', failing_input=True,
                       what='the endpoint %s on client frames [%s] (%s)' % (
                           'hangs' if 'HANG' in b or b == 'TIMEOUT' else 'panics / dies', describe(c.frames or []), c.line[:80]))
            continue
        if a.startswith(('EXN', 'NOHANDLER', 'BADARGS')) or 'E:fuel' in a or 'PANIC' in a:
            ctx.report(cj, 'model=' + a[:200], 'a model result', cls='model-broken', failing_input=False, what='model runner failed')
            continue
        if c.kind == 'run':
            res_a, res_b = ka.get('res', ''), kb.get('res', '')
            out_a, out_b = ka.get('out', ''), kb.get('out', '')
            for r in res_b.split(';'):
                ctx.count('impl:' + r.split(':')[0 if not r.startswith('E:') else 1] if r else 'impl:none')
            end = c.meta.get('end')
            exp = oracle_run(c) if c.meta.get('style') is not None else None
            if exp is not None and (res_a != exp[0] or out_a != exp[1].hex()):
                ctx.report(cj, 'model res=%s out=%s' % (res_a[:200], out_a[:120]), 'reference res=%s out=%s' % (exp[0][:200], exp[1].hex()[:120]),
                           cls='model-vs-oracle', failing_input=False,
                           what='Coq model of the endpoint disagrees with the Python RFC 6455 reference on a well-formed script')
            if end == 'rst':
                # what the server wrote cannot be observed.  The peer is gone: a reply (Pong) written to it either fails
                # (WriteError) or provokes a reset that fails the next read (ReadError) and discards what was still unread,
                # so the messages delivered are a prefix of the messages sent, followed by one of the two errors
                la, lb = res_a.split(';'), res_b.split(';')
                ok = (lb == la) or (lb and lb[-1] in ('E:write', 'E:send', 'E:read') and lb[:-1] == la[:len(lb) - 1] and
                                    all(not x.startswith('E:') for x in lb[:-1]))
                if not ok:
                    ctx.report(cj, 'impl res=' + res_b[:300], 'expected res=' + res_a[:300] + ' (or a prefix of the messages, then E:write)',
                               cls='recv-mismatch', failing_input=wellformed,
                               what='recv() results %s differ from the messages sent %s; client frames [%s], then the client closes '
                                    'the socket' % (res_b[:160], res_a[:160], describe(c.frames)))
                continue
            if res_b != res_a:
                ctx.report(cj, 'impl res=' + res_b[:300], 'expected res=' + res_a[:300], cls='recv-mismatch',
                           failing_input=wellformed and (exp is None or res_b != exp[0]),
                           what='recv() returned [%s] for client frames [%s] (delivery %s, ending %s); the messages sent are [%s]' % (
                               res_b[:200], describe(c.frames), c.meta.get('style'), end, res_a[:200]) + oldnote.get(c.line, ''))
            if out_b != out_a:
                bad = wellformed
                ctx.report(cj, 'server wrote ' + out_b[:300], 'expected ' + out_a[:300], cls='writes-mismatch', failing_input=bad,
                           what='for client frames [%s] (echo=%s, limit=%s, ending %s) the server wrote %s… (%d bytes); expected %s… (%d '
                                'bytes): each Ping answered by a Pong with the same payload, the Close by a Close, a Close on drop' % (
                                    describe(c.frames), c.meta.get('echo'), c.meta.get('limit'), end, out_b[:48], len(out_b) // 2,
                                    out_a[:48], len(out_a) // 2) + oldnote.get(c.line, ''))
            fr = check_server_bytes(ctx, cj, bytes.fromhex(out_b), 'client frames [%s]' % describe(c.frames))
            if kb.get('eof') != '1':
                ctx.report(cj, 'eof=' + str(kb.get('eof')), 'server side closes', cls='no-eof', failing_input=False,
                           what='the client did not see the end of the stream')
            # allocation (C03): measured peak against the model's meter
            if not c.meta.get('echo') and kb.get('peak') is not None and ka.get('alloc') is not None:
                total = sum(len(f.wire()) for f in c.frames) + len(c.meta.get('tail') or '') // 2
                # the property bounds allocation by a constant multiple of the bytes supplied (64x, the constant proved for the
                # model: C03_wsmsg); the model's own meter is specific to how the code concatenates fragments today, so exceeding
                # it within that bound is counted, not reported (a running buffer instead of collect-then-concatenate does it)
                if ALLOC_SLACK + int(ka['alloc']) < int(kb['peak']) <= 64 * total + ALLOC_SLACK:
                    ctx.count('allocation above the model meter, within 64 x supplied')
                if int(kb['peak']) > 64 * total + ALLOC_SLACK:
                    ctx.report(cj, 'peak heap growth %s' % kb['peak'], '<= 64 x %d bytes supplied (+%d); model meter %s' % (total, ALLOC_SLACK, ka['alloc']),
                               cls='alloc-bound', failing_input=True,
                               what='receiving %d bytes of client frames [%s] allocated %s bytes (model bound %s)' % (
                                   total, describe(c.frames), kb['peak'], ka['alloc']))
            if wellformed:
                nfrag = sum(1 for f in c.frames if f.op == CONT)
                nctl = sum(1 for f in c.frames if f.op in (PING, CLOSE))
                if nfrag or nctl or c.meta.get('style') in ('headers', 'hdrbytes', 'bytewise') or c.tag == 'exh-pairs':
                    ctx.mark_nontrivial((c.tag, res_a[:80], out_a[:40], c.meta.get('style')))
            key = (c.tag,)
            if key not in sampled and len(sampled) < 7:
                sampled.add(key)
                ctx.sample({'stream': c.tag, 'frames': describe(c.frames), 'delivery': c.meta.get('style'), 'ending': end,
                            'echo': c.meta.get('echo'), 'limit': c.meta.get('limit'), 'recv': res_b[:120], 'server_wrote': out_b[:80]})
        elif c.kind == 'nb':
            pa, pb = ka.get('polls', ''), kb.get('polls', '')
            oa, ob = ka.get('out', ''), kb.get('out', '')
            exp_p, exp_o = c.meta.get('polls'), c.meta.get('out')
            for k in c.meta.get('ks', []):
                ctx.count('nb-k:%s' % (k if k < 3 else '3+'))
            if exp_p is not None and (pa != exp_p or oa != exp_o):
                ctx.report(cj, 'model polls=%s out=%s' % (pa[:200], oa[:100]), 'reference polls=%s out=%s' % (exp_p[:200], exp_o[:100]),
                           cls='model-vs-oracle', failing_input=False,
                           what='Coq model of recv_nonblocking disagrees with the Python reference simulation')
            if pb != pa:
                ctx.report(cj, 'impl polls=' + pb[:300], 'expected polls=' + pa[:300], cls='nb-mismatch',
                           failing_input=(exp_p is not None and pb != exp_p) or exp_p is None and wellformed,
                           what='recv_nonblocking() results [%s] for client frames [%s] with %s bytes available at the successive '
                                'non-blocking reads; blocking receive delivers / expected [%s]' % (
                                    pb[:200], describe(c.frames), c.meta.get('ks'), pa[:200]) + oldnote.get(c.line, ''))
            if ob != oa:
                ctx.report(cj, 'server wrote ' + ob[:300], 'expected ' + oa[:300], cls='writes-mismatch', failing_input=wellformed,
                           what='non-blocking receive over client frames [%s]: the server wrote %s…, expected %s…' % (
                               describe(c.frames), ob[:48], oa[:48]))
            check_server_bytes(ctx, cj, bytes.fromhex(ob), 'non-blocking receive, client frames [%s]' % describe(c.frames))
            if 1 in c.meta.get('ks', []) or 'N' in pa.split(';'):
                ctx.mark_nontrivial(('nb', pa[:80], tuple(c.meta.get('ks', []))[:12]))
            if ('nb',) not in sampled:
                sampled.add(('nb',))
                ctx.sample({'stream': 'nb', 'frames': describe(c.frames), 'steps': c.line[7:120], 'bytes_available_at_nb_reads': c.meta.get('ks'),
                            'polls': pb[:160]})
        elif c.kind == 'nbfree':
            ra, rb_ = ka.get('res', ''), kb.get('res', '')
            oa, ob = ka.get('out', ''), kb.get('out', '')
            if wellformed:
                msgs, replies, closed = expected(c.frames)
                exp_r = ';'.join([show_msg(t, p) for t, p in msgs] + (['E:closed'] if closed else []))
                exp_o = b''.join(server_frame(o, p) for o, p in replies) + (b'' if closed else server_frame(CLOSE, b''))
                if ra != exp_r or oa != exp_o.hex():
                    ctx.report(cj, 'model res=%s' % ra[:200], 'reference res=%s' % exp_r[:200], cls='model-vs-oracle', failing_input=False,
                               what='Coq model of repeated recv_nonblocking disagrees with the Python reference')
            ctx.count('nbfree-nones', int(kb.get('nones', '0') or 0))
            if rb_ != ra:
                ctx.report(cj, 'impl res=' + rb_[:300], 'expected res=' + ra[:300], cls='nb-mismatch', failing_input=wellformed,
                           what='polling recv_nonblocking while the client trickles frames [%s] delivered [%s]; blocking receive '
                                'delivers [%s]' % (describe(c.frames), rb_[:200], ra[:200]))
            if ob != oa:
                ctx.report(cj, 'server wrote ' + ob[:300], 'expected ' + oa[:300], cls='writes-mismatch', failing_input=wellformed,
                           what='polling recv_nonblocking over client frames [%s]: the server wrote %s…, expected %s…' % (
                               describe(c.frames), ob[:48], oa[:48]))
            check_server_bytes(ctx, cj, bytes.fromhex(ob), 'polling, client frames [%s]' % describe(c.frames))
            if int(kb.get('nones', '0') or 0) > 0 and ';' in ra:
                ctx.mark_nontrivial(('nbfree', ra[:80]))
        elif c.kind == 'hs':
            expect = c.meta.get('expect')
            key = bytes.fromhex(c.meta['key']) if c.meta.get('key') is not None else None
            resp_b = bytes.fromhex(kb.get('resp', ''))
            frames_b = bytes.fromhex(kb.get('frames', ''))
            if expect == 'plain':
                if a != 'plain':
                    ctx.report(cj, 'model=' + a[:100], 'plain', cls='model-vs-oracle', failing_input=False, what='model upgrades a non-websocket request')
                if resp_b.startswith(b'HTTP/1.1 101'):
                    ctx.report(cj, 'impl resp=' + resp_b[:80].decode('latin1'), 'no 101', cls='hs-mismatch', failing_input=False,
                               what='a request without "Upgrade: websocket" was upgraded')
                continue
            if expect == 'refused':
                if a != 'resp= frames=':
                    ctx.report(cj, 'model=' + a[:100], 'no response', cls='model-vs-oracle', failing_input=False, what='model upgrades without a key')
                if b'101' in resp_b[:16] or resp_b:
                    ctx.report(cj, 'impl resp=' + resp_b[:120].decode('latin1'), 'connection closed without a 101', cls='hs-mismatch',
                               failing_input=resp_b.startswith(b'HTTP/1.1 101'),
                               what='an upgrade request without Sec-WebSocket-Key was answered with %r' % resp_b[:60])
                continue
            want = accept_of(key)
            p = parse_101(resp_b)
            bad = None
            if p is None:
                bad = 'not a well-formed response head'
            elif p[0] != 101:
                bad = 'status %d' % p[0]
            elif p[1].get(b'sec-websocket-accept') != [want]:
                bad = 'Sec-WebSocket-Accept %r, expected %r' % (p[1].get(b'sec-websocket-accept'), want)
            elif [v.lower() for v in p[1].get(b'upgrade', [])] != [b'websocket'] or [v.lower() for v in p[1].get(b'connection', [])] != [b'upgrade']:
                bad = 'Upgrade / Connection headers %r %r' % (p[1].get(b'upgrade'), p[1].get(b'connection'))
            if bad:
                ctx.report(cj, 'impl resp=' + resp_b[:200].decode('latin1'), '101 with Sec-WebSocket-Accept: ' + want.decode(), cls='hs-mismatch',
                           failing_input=True, what='handshake with Sec-WebSocket-Key %r (%d bytes): %s' % (key[:40], len(key), bad))
            if kb.get('resp', '') != ka.get('resp', ''):
                ctx.report(cj, 'impl resp=' + kb.get('resp', '')[:200], 'model resp=' + ka.get('resp', '')[:200], cls='hs-mismatch',
                           failing_input=False, what='handshake response bytes differ from the model for key %r' % key[:40])
            exp_frames = server_frame(TEXT, b'hi') + server_frame(PONG, b'p') + server_frame(CLOSE, b'\x03\xe8')
            if frames_b != exp_frames or kb.get('frames', '') != ka.get('frames', ''):
                ctx.report(cj, 'after the handshake the server wrote ' + frames_b.hex()[:200], 'expected ' + exp_frames.hex(), cls='writes-mismatch',
                           failing_input=frames_b != exp_frames,
                           what='after a successful handshake the echo handler received text "hi", ping "p", close 1000 and the server '
                                'wrote %s instead of %s' % (frames_b.hex()[:80], exp_frames.hex()))
            if len(key) not in (24,) or not key.isalnum():
                ctx.mark_nontrivial(('hs', key[:40]))
            if ('hs',) not in sampled:
                sampled.add(('hs',))
                ctx.sample({'stream': 'hs', 'key': key[:40].decode('latin1'), 'accept': want.decode(), 'response': resp_b[:60].decode('latin1')})
    ctx.traces += len(lines)
