"""C03, WebSocket part: Frame::from_stream (hook H1) on arbitrary bytes — every prefix of seed frames, header mutants,
huge claimed lengths, random bytes; whole and byte-by-byte; outcome class compared with the Coq model (C10's Frame.v),
PANIC/DIED/TIMEOUT = violation. (The message-level loop is exercised by C11.)"""
RULE = ('every prefix of 8 seed frames (all length forms, masked and not), every 2-byte header x {no more bytes, 3 bytes}, length '
        'fields replaced by boundary/huge values, random bytes; delivered whole and one byte per read')
ASSUMPTIONS = ['runner process under the default address-space limit of the C10 check is not re-applied here; the C10 check runs '
               'the same decoder under a tight address-space limit']


def run(ctx):
    rng = ctx.rng
    if ctx.replay:
        if ctx.replay['case'].get('part') != 'ws':
            return
        lines = [ctx.replay['case']['line']]
    else:
        seeds = [bytes.fromhex(x) for x in (
            '810548656c6c6f', '818537fa213d7f9f4d5158', '0103486579', '8000', '8900', '8a00',
            '827e0100' + '00' * 256, '88820102030403e8')]
        seeds.append(b'\x82\x7f' + (65536).to_bytes(8, 'big') + bytes(65536))
        inputs = []
        for s in seeds:
            step = 1 if len(s) < 400 else 997
            for i in range(0, len(s) + 1, step):
                inputs.append(s[:i])
        thorough = ctx.tier == 'thorough'
        for b0 in range(256):
            for b1 in (range(256) if thorough else (0, 1, 125, 126, 127, 128, 129, 253, 254, 255)):
                inputs.append(bytes([b0, b1]))
                inputs.append(bytes([b0, b1, 1, 2, 3]))
        for claimed in (2**16, 2**31, 2**32, 2**40, 2**62, 2**63, 2**64 - 1):
            inputs.append(b'\x82\x7f' + claimed.to_bytes(8, 'big') + b'abc')
            inputs.append(b'\x82\xff' + claimed.to_bytes(8, 'big') + b'\x01\x02\x03\x04abc')
        for _ in range(3000 if thorough else 300 * ctx.scale):
            inputs.append(bytes(rng.getrandbits(8) for _ in range(rng.choice([0, 1, 2, 3, 6, 14, 50]))))
        lines = []
        for d in inputs:
            lines.append('c10_dec h%s -' % d.hex())
            if len(d) <= 300:
                lines.append('c10_dec h%s *1' % d.hex())
    m, im = ctx.both(lines)
    for line, a, b in zip(lines, m, im):
        cls = b.split(' ')[0]
        ctx.count('ws:impl:' + cls)
        case = {'part': 'ws', 'line': line[:600]}
        if b in ('PANIC', 'DIED', 'TIMEOUT'):
            ctx.report(case, b, a[:100], cls='ws-' + b.lower(), failing_input=True, what='frame decoder %s on this input' % b)
            continue
        # compare everything except the capacity figure (an inequality, checked by C10)
        if a.split(' alloc=')[0].split(' consumed=')[0] != b.split(' cap=')[0].split(' consumed=')[0]:
            ctx.report(case, b[:200], a[:200], cls='ws-class', failing_input=False, what='outcome differs from the model')
        if cls.startswith('err') or 'consumed' in b:
            ctx.mark_nontrivial(line)
    ctx.sample({'part': 'ws', 'case': lines[len(lines) // 2][:120], 'impl': im[len(lines) // 2][:120]})
