"""Shared by the end-to-end parts of C04 / C19 / C06: the same `srv` case lines are evaluated by the extracted model of the
whole server (Server.serve_text: Config.load on the configuration text, then routing, blacklist, route-type dispatch and
the static handlers over the fixture tree) and compared request by request with what the real server answered."""
UPSTREAM = b'UPSTREAM'.hex()


def norm_impl(g):
    for code in ('403', '404', '500'):
        if g.startswith(code + ':'):
            return code
    return g


def expected_of_model(a, with_ct):
    if a == 'proxy':
        return '200:body:' + UPSTREAM + (':ct:none' if with_ct else '')
    if a.startswith('ws:'):
        # a WebSocket tunnel: the mock target named @UP@ answers "UPSTREAM", @UPk@ answers "UPk"
        t = bytes.fromhex(a[3:]).decode()
        return '200:body:' + (b'UPSTREAM' if t == '@UP@' else t.strip('@').encode()).hex() + (':ct:none' if with_ct else '')
    return a


def compare(ctx, lines, im, cls, what):
    """lines: srv case lines; im: the implementation's answers. Returns the model's answers (list of lists)."""
    m = ctx.model(lines)
    out = []
    for line, a, b in zip(lines, m, im):
        ma, gb = a.split(','), b.split(',')
        out.append(ma)
        if a in ('DIED', 'TIMEOUT', 'BADARGS') or a.startswith('EXN') or a.startswith('NOHANDLER'):
            ctx.report({'line': line[:4000], 'kind': 'server-model'}, 'model=' + a[:200], 'an answer per request', cls='model-broken',
                       failing_input=False, what='the extracted server model did not answer')
            continue
        if len(ma) != len(gb):
            continue      # the caller reports a server that did not answer
        reqs = line.split(' ')[3].split(',')
        for k, (x, y, r) in enumerate(zip(ma, gb, reqs)):
            with_ct = r.split(':')[4:5] == ['ct']
            if '@FIX@' in bytes.fromhex(r.split(':')[1][1:]).decode('utf-8', 'replace'):
                continue  # the absolute path of the fixture directory is the model's root
            want = expected_of_model(x, with_ct)
            if norm_impl(y) != want:
                ctx.report({'line': line[:4000], 'kind': 'server-model', 'request': r}, y[:200], want[:200], cls=cls, failing_input=False,
                           what=what + ': the real server and Server.serve_text on the same configuration text differ')
            else:
                ctx.count('server-model agreement')
    return out
