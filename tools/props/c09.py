"""C09 — proxy always answers: real proxy_request / proxy_handler against a scripted loopback upstream (valid responses with
Content-Length / chunked / close-delimited bodies, each cut at every byte offset, garbage, refused, accept-then-silence,
accept-then-close, trickle), compared with the Coq model; the bytes the upstream received are compared with the model's
serialisation; select_target under 1..8 threads."""
import re
from hv import hx
from props import httpgen as G

RULE = ('upstream behaviours: valid responses over every modelled status class with Content-Length / chunked (all chunkings of '
        'short bodies) / close-delimited bodies; every prefix of seed responses; garbage and header-malformed responses; refused; '
        'accept-then-silence; accept-then-close; 50 ms trickle (thorough); client requests as in C02 (prefix routes, bodies, '
        'existing X-Forwarded-For); select_target for 1..4 targets x 1..8 threads; non-trivial = cut / malformed / stalled '
        'upstream or a request with body or forwarded header')
ASSUMPTIONS = ['wall-clock bound (timeout + 350 ms slack) is measured, not proved', 'the upstream is on loopback',
               'proxy_handler is exercised with its built-in 5 s timeout only on behaviours that answer or close']
TIMEOUT_MS = 300
SLACK_MS = 350


GEN = {}


def upstream_oracle(g, seen):
    """Independent reading of what the upstream must receive: the request that came in (same method, target, version,
    header fields with the order of same-named fields kept, body) plus one X-Forwarded-For field naming the client's
    origin address.  -> None or a description of the difference"""
    den = G.denote_request(g)
    head, sep, body = seen.partition(b'\r\n\r\n')
    if not sep:
        return 'no blank line in what the upstream received'
    ls = head.split(b'\r\n')
    parts = ls[0].split(b' ')
    want_target = den['uri'] + (b'?' + den['q'] if den['q'] else b'')
    if len(parts) != 3 or parts[0] != G.METHODS[den['m']].encode() or parts[1] != want_target or parts[2] != den['v']:
        return 'request line %r, expected %r' % (ls[0][:80], b' '.join([G.METHODS[den['m']].encode(), want_target, den['v']])[:80])
    got = []
    for ln in ls[1:]:
        k, c, v = ln.partition(b': ')
        if not c:
            return 'bad header line %r' % ln[:60]
        got.append((k.lower(), v))
    want = list(den['h']) + [(b'x-forwarded-for', den['origin'].encode())]
    names = set(k for k, _ in want) | set(k for k, _ in got)
    for nme in names:
        if [v for k, v in want if k == nme] != [v for k, v in got if k == nme]:
            return 'header %r: upstream saw %r, expected %r' % (nme, [v for k, v in got if k == nme][:3], [v for k, v in want if k == nme][:3])
    if body != (den['c'] or b''):
        return 'body of %d bytes, expected %d' % (len(body), len(den['c'] or b''))
    return None


def server_part(ctx):
    """End to end through the config-driven server: humphrey_server::server::main started from a configuration text whose
    proxy routes point at an origin that answers with the very request head it received; the client therefore reads what the
    upstream saw. Compared with the whole-server model (Server.serve_text -> SProxy -> Proxy.upstream_bytes) and read
    independently here: route prefix stripped once, query kept, header fields kept in order, one more X-Forwarded-For naming
    the origin address (last parseable entry of the incoming X-Forwarded-For, else the peer)."""
    import ipaddress
    rng = ctx.rng
    n = 200 if ctx.tier == 'thorough' else 10 * ctx.scale
    lines, meta = [], []
    if ctx.replay:
        if not ctx.replay['case'].get('line', '').startswith('srv '):
            return
        lines, meta, n = [ctx.replay['case']['line']], [None], 0
    PRE = ['/api/', '/p', '/a/b/', '/docs', '/x/', '/ab']
    for i in range(n):
        pres = rng.sample(PRE, rng.randint(1, 3))
        routes = [(pre + '*') for pre in pres] + (['/exact'] if rng.random() < 0.5 else []) + (['/*'] if rng.random() < 0.7 else [])
        conf = '\n'.join(['server {', '  address "127.0.0.1"', '  port 8080', '  threads 8', '  log {', '    level "error"', '    console false', '  }'] +
                         [ln for r in routes for ln in ('  route %s {' % r, '    proxy "@UPE@"', '  }')] + ['}']) + '\n'
        reqs = []
        for _ in range(8):
            pre = rng.choice(pres + ['/', '/exact', '/zz'])
            rest = rng.choice(['', 'q', '/q', 'v1/items', pre, pre.lstrip('/'), pre + pre, '/' + pre, 'a%20b', 'é'])
            path = pre + rest
            query = rng.choice(['', '', 'x=1', 'a=b&c=d', 'q?r'])
            peer = '127.0.0.%d' % rng.randint(2, 60)
            xff = rng.choice([None, None, '10.0.0.%d' % rng.randint(1, 9), '10.1.1.1, 192.168.0.%d' % rng.randint(1, 9), 'unknown, 10.2.2.2', 'unknown',
                              '10.3.3.3, nonsense'])
            reqs.append((peer, xff, path + ('?' + query if query else '')))
        lines.append('srv %s - %s -' % (hx(conf), ','.join('%s:%s:%s:%s' % (hx('x'), hx(t), hx(p), hx(x) if x else '-') for p, x, t in reqs)))
        meta.append((routes, reqs))
    im = ctx.impl(lines)
    ctx.evaluations += len(lines)
    from props import srvmodel
    srvmodel.compare(ctx, lines, im, 'proxy-server', 'proxy routes of the config-driven server')
    def first_match(routes, path):
        for r in routes:
            lit = r.rstrip('*')
            if (path.startswith(lit) if r.endswith('*') else path == r):
                return r
        return None
    for line, me, b in zip(lines, meta, im):
        ctx.count('kind:server-proxy-e2e')
        if me is None:
            ctx.sample({'replayed': line[:200], 'impl': b[:300]})
            continue
        routes, reqs = me
        got = b.split(',')
        if len(got) != len(reqs):
            ctx.report({'line': line[:4000], 'kind': 'server-proxy-e2e'}, b[:300], 'one answer per request', cls='proxy-server',
                       failing_input=b in ('PANIC', 'DIED', 'TIMEOUT'), what='the config-driven server did not answer: ' + b[:100])
            continue
        for (peer, xff, target), g in zip(reqs, got):
            path, _, query = target.partition('?')
            case = {'line': line[:4000], 'kind': 'server-proxy-e2e', 'request': target, 'peer': peer, 'xff': xff}
            r = first_match(routes, path)
            if r is None:
                if not g.startswith('404'):
                    ctx.report(case, g[:200], '404', cls='proxy-server-route', failing_input=True, what='no proxy route matches, yet not 404')
                continue
            if not g.startswith('200:body:'):
                ctx.report(case, g[:200], 'the echo of the forwarded request', cls='proxy-server-answer', failing_input=True,
                           what='a proxied request was not answered with the origin\'s response')
                continue
            seen = bytes.fromhex(g.split(':')[2])
            lit = r.rstrip('*')
            stripped = path[len(lit):] if r.endswith('*') else path[len(lit):]
            if not stripped.startswith('/'):
                stripped = '/' + stripped
            want_target = stripped + ('?' + query if query else '')
            origin = peer
            for e in (xff or '').split(','):
                try:
                    origin = str(ipaddress.ip_address(e.strip()))
                except ValueError:
                    pass
            head = seen.split(b'\r\n\r\n')[0].split(b'\r\n')
            hs = [tuple(x.split(b': ', 1)) for x in head[1:]]
            want_xff = ([xff.encode()] if xff else []) + [origin.encode()]
            got_xff = [v for k, v in hs if k.lower() == b'x-forwarded-for']
            others = sorted((k.lower(), v) for k, v in hs if k.lower() != b'x-forwarded-for')
            if head[0] != ('GET %s HTTP/1.1' % want_target).encode():
                ctx.report(case, head[0][:200].decode('utf-8', 'replace'), 'GET %s HTTP/1.1' % want_target, cls='proxy-server-target', failing_input=True,
                           what='the upstream was asked for another target than the request\'s with the route prefix stripped')
            elif got_xff != want_xff:
                ctx.report(case, repr(got_xff), repr(want_xff), cls='proxy-server-xff', failing_input=True,
                           what='X-Forwarded-For seen by the upstream is not the incoming one plus the origin address')
            elif others != [(b'connection', b'close'), (b'host', b'x')]:
                ctx.report(case, repr(others), 'Host and Connection as sent', cls='proxy-server-headers', failing_input=True,
                           what='header fields of the request were changed on the way to the upstream')
            else:
                ctx.count('forwarded request read independently (server)')
                if xff or stripped != path:
                    ctx.mark_nontrivial(target)


def run(ctx):
    server_part(ctx)
    if ctx.replay and ctx.replay['case'].get('line', '').startswith('srv '):
        return
    rng = ctx.rng
    thorough = ctx.tier == 'thorough'
    lines, meta = [], []
    if ctx.replay:
        lines, meta = [ctx.replay['case']['line']], [('replay', None, None)]
    else:
        seeds = [b'HTTP/1.1 200 OK\r\nContent-Length: 5\r\nX-A: b\r\n\r\nhello',
                 b'HTTP/1.1 404 Not Found\r\nTransfer-Encoding: chunked\r\n\r\n3\r\nabc\r\nA\r\n0123456789\r\n0\r\n\r\n',
                 b'HTTP/1.0 301 Moved Permanently\r\nLocation: /x\r\n\r\n']
        reqs = []
        for _ in range(40 if thorough else 8 * ctx.scale):
            g = G.rand_request(rng, body_max=60, nheaders_max=6)
            raw = G.render_request(g)
            reqs.append(raw)
            g['peer_ip'] = '10.1.2.3'          # the address the harness parses the request under
            GEN[raw] = g
        reqs.append(b'GET /api/v1/items?x=1 HTTP/1.1\r\nHost: a\r\nX-Forwarded-For: 9.9.9.9\r\n\r\n')
        # large header blocks (33..48 fields) with repeated names: same-named fields must reach the upstream in order
        big = []
        for _ in range(8 if thorough else 3):
            g = G.rand_request(rng, body_max=20, nheaders_max=48)
            while len(g['headers']) < 33:
                nm = rng.choice(['Via', 'Cookie', 'X-Trace', 'Accept', 'X-Forwarded-For'] if rng.random() < 0.7 else G.CUSTOM)
                if nm.lower() == 'x-forwarded-for':
                    continue
                g['headers'].insert(rng.randint(0, len(g['headers'])), (G.rand_case(rng, nm), 'v%d' % len(g['headers'])))
                g['sep'].append(': ')
            raw = G.render_request(g)
            g['peer_ip'] = '10.1.2.3'
            GEN[raw] = g
            big.append(raw)
        reqs += big
        def add(kind, beh, req, info=None):
            lines.append('proxy %d %s %s' % (TIMEOUT_MS, beh, hx(req)))
            meta.append((kind, beh, info))
        # every cut of the seed responses, closing or stalling after the cut
        for s in seeds:
            step = 1 if thorough else 3
            for i in list(range(0, len(s), step)) + [len(s)]:
                add('cut' if i < len(s) else 'valid', 'send:%s:close' % s[:i].hex(), rng.choice(reqs), (s, i))
            for i in rng.sample(range(len(s)), 6 if thorough else 2):
                add('stall', 'send:%s:stall' % s[:i].hex(), rng.choice(reqs), (s, i))
        # valid responses, every status class, CL / chunked / close-delimited
        for k in range(300 if thorough else 40 * ctx.scale):
            code = G.STATUS[k % len(G.STATUS)]
            body = bytes(rng.getrandbits(8) for _ in range(rng.choice([0, 1, 5, 40, 300])))
            hs = G.rand_resp_headers(rng, 6)
            framing = ['cl', 'chunked', 'close'][k % 3]
            head = ('HTTP/1.1 %d %s\r\n' % (code, G.PHRASES[code])).encode()
            if framing == 'cl':
                hs.append(('Content-Length', str(len(body))))
                payload = body
            elif framing == 'chunked':
                hs.append(('Transfer-Encoding', 'chunked'))
                payload, _ = G.chunked_encode(rng, body)
            else:
                payload = body
            for kk, v in hs:
                head += ('%s: %s\r\n' % (kk, v)).encode()
            full = head + b'\r\n' + payload
            add('valid-' + framing, 'send:%s:close' % full.hex(), big[k % len(big)] if k % 5 == 0 else rng.choice(reqs), (code, body, framing))
            # a few cuts of every generated response as well (framed ones only: a close-delimited body has no end to miss)
            if framing != 'close' and len(full) > 1:
                for i in rng.sample(range(len(full)), 2 if thorough else 1):
                    add('cut', 'send:%s:close' % full[:i].hex(), rng.choice(reqs), (full, i))
        # every chunking of short bodies (all compositions), the chunked response must pass through as a plain body
        for blen in range(0, 7 if thorough else 5):
            body = bytes(rng.getrandbits(8) for _ in range(blen))
            for comp in G.compositions(blen):
                payload, _ = G.chunked_encode(rng, body, comp)
                add('valid-chunked', 'send:%s:close' % (b'HTTP/1.1 200 OK\r\nTransfer-Encoding: chunked\r\n\r\n' + payload).hex(),
                    rng.choice(reqs), (200, body, 'chunked'))
        # the upstream accepts the connection and then says nothing at all
        add('stall', 'send::stall', reqs[0], (b'', 0))
        for garbage in (b'', b'garbage', b'\r\n\r\n', b'HTTP/1.1 999 Nope\r\n\r\n', b'HTTP/1.1 200 OK\r\nNoColon\r\n\r\n',
                        'HTTP/1.1 200 OK\r\nX: €'.encode(), b'HTTP/1.1 200 OK\r\nContent-Length: 99999999999999\r\n\r\nab',
                        b'HTTP/1.1 200 OK\r\nTransfer-Encoding: chunked\r\n\r\nffffffffffffffff\r\nab', b'\xff\xfe\x00'):
            add('garbage', 'send:%s:close' % garbage.hex(), rng.choice(reqs))
        add('refused', 'refused', reqs[0])
        add('closeatonce', 'closeatonce', reqs[0])
        if thorough:
            add('trickle', 'trickle:%s:50' % seeds[0].hex(), reqs[0])
        # prefix stripping through the server's handler
        handler_cases = [('/api/*', '/api/v1/items'), ('/api*', '/apiary'), ('/*', '/x'), ('/a/b/*', '/a/b/'), ('/é/*', '/é/z'),
                         # the literal prefix occurring again right after itself must be stripped once only
                         ('/api/*', '/api//api/users'), ('/docs*', '/docs/docs/intro.html'), ('/*', '///x'), ('/*', '//x'),
                         ('/a*', '/aaa'), ('/ab*', '/ababab/c'), ('/api/*', '/api/api/users')]
        for _ in range(40 if thorough else 8 * ctx.scale):
            pre = rng.choice(['/', '/p', '/p/', '/ab', '/é/', '/x/y/'])
            rest = rng.choice(['', 'q', '/q', pre, pre.lstrip('/'), pre + pre, '/' + pre, 'z/' + pre])
            handler_cases.append((pre + '*', pre + rest))
        for pat, path in handler_cases:
            req = ('GET %s?q=1 HTTP/1.1\r\nHost: h\r\nConnection: close\r\n\r\n' % path).encode()
            lines.append('proxy_handler %s send:%s:close %s' % (hx(pat), seeds[0].hex(), hx(req)))
            meta.append(('handler', pat, path))
        for mode in ('rr', 'random'):
            for n in (1, 2, 3, 4):
                for th in (1, 3, 8):
                    lines.append('select %s %d %d %d' % (mode, n, th, 6))
                    meta.append(('select-' + mode, n, th))
    m = ctx.model(lines)
    im = ctx.impl(lines)
    ctx.evaluations += len(lines)
    for line, (kind, beh, info), a, b in zip(lines, meta, m, im):
        ctx.count('kind:' + kind)
        case = {'line': line[:1500], 'kind': kind}
        if b in ('PANIC', 'DIED', 'TIMEOUT'):
            ctx.report(case, b, 'a response', cls='proxy-' + b.lower(), failing_input=True, what='proxying %s' % b)
            continue
        if kind.startswith('select'):
            if kind == 'select-rr':
                if a != b:
                    ctx.report(case, b, a, cls='proxy-rr', failing_input=True, what='targets not chosen in strict rotation')
            else:
                n = beh
                ok = all(re.fullmatch(r't\d+', t) and int(t[1:]) < n for t in b.split(','))
                if not ok:
                    ctx.report(case, b, 'targets from the configured set', cls='proxy-random', failing_input=True, what='random target outside the set')
            continue
        bm = re.match(r'^resp (.*?)(?: elapsed=(\d+))? upstream=([0-9a-f]*)$', b)
        am = re.match(r'^resp (.*?) upstream=([0-9a-f]*)$', a)
        if not bm or not am:
            ctx.report(case, b[:300], a[:300], cls='proxy-harness', failing_input=False, what='unexpected runner output')
            continue
        resp_i, elapsed, up_i = bm.group(1), bm.group(2), bm.group(3)
        resp_m, up_m = am.group(1), am.group(2)
        code = int(re.search(r'code=(\d+)', resp_i).group(1))
        # direct reading of the property
        if kind in ('cut', 'stall', 'garbage', 'refused', 'closeatonce') and code != 502:
            # a cut that falls exactly at the end of a complete message is not a cut
            ctx.report(case, resp_i[:200], '502', cls='proxy-not-502', failing_input=True,
                       what='upstream %s but the proxy did not answer 502' % kind)
            continue
        if kind.startswith('valid-'):
            ucode, ubody, framing = info
            body_i = bytes.fromhex(resp_i.split(' b=')[1])
            if framing == 'close' and ubody and code == ucode and body_i == b'':
                ctx.report(case, 'body dropped', 'body passed through', cls='proxy-close-delimited', failing_input=True,
                           what='close-delimited upstream body returned empty')
            elif code != ucode or body_i != ubody:
                ctx.report(case, resp_i[:200], 'status %d, body of %d bytes' % (ucode, len(ubody)), cls='proxy-passthrough',
                           failing_input=True, what='valid upstream response not passed through')
                continue
        if elapsed is not None and int(elapsed) > TIMEOUT_MS + SLACK_MS:
            if kind == 'trickle':
                ctx.report(case, 'elapsed=%s' % elapsed, 'within timeout + slack', cls='proxy-trickle', failing_input=True,
                           what='one byte per 50 ms keeps every read under the timeout: total time unbounded')
            else:
                ctx.report(case, 'elapsed=%s' % elapsed, 'within %d ms' % (TIMEOUT_MS + SLACK_MS), cls='proxy-slow', failing_input=True,
                           what='proxy_request exceeded its timeout')
                continue
        # what the upstream received, read independently of the model (when it received a whole request)
        if line.startswith('proxy ') and up_i:
            g_ = GEN.get(bytes.fromhex(line.split(' ')[3][1:]))
            if g_ is not None:
                diff = upstream_oracle(g_, bytes.fromhex(up_i))
                ctx.count('upstream bytes read independently')
                if diff:
                    ctx.report(case, up_i[:400], 'the received request plus X-Forwarded-For', cls='proxy-upstream-request', failing_input=True,
                               what='the upstream did not receive the request that came in: ' + diff)
                    continue
        if resp_i != resp_m or up_i != up_m:
            ctx.report(case, (resp_i + ' upstream=' + up_i)[:400], (resp_m + ' upstream=' + up_m)[:400], cls='proxy-mismatch',
                       failing_input=False, what='implementation and model differ')
        if kind in ('cut', 'stall', 'garbage', 'handler') or 'body' in line:
            ctx.mark_nontrivial(line)
    for k in (0, len(lines) // 2):
        if k < len(lines):
            ctx.sample({'case': lines[k][:200], 'impl': im[k][:200]})
