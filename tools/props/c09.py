"""C09 — proxy always answers: real proxy_request / proxy_handler against a scripted loopback upstream (valid responses with
Content-Length / chunked / close-delimited bodies, each cut at every byte offset, garbage, refused, accept-then-silence,
accept-then-close, trickle), compared with the Coq model; the bytes the upstream received are compared with the model's
serialisation; select_target under 1..8 threads."""
import re
from hv import hx
from props import httpgen as G

RULE = ('upstream behaviours: valid responses over every modelled status class with Content-Length / chunked (all chunkings of '
        'short bodies) / close-delimited bodies; every prefix of seed responses; garbage and header-malformed responses; refused; '
        'accept-then-silence; accept-then-close; 50 ms trickle (thorough); client requests as in C02 (prefix routes, bodies, '
        'existing X-Forwarded-For); select_target for 1..4 targets x 1..8 threads; non-trivial = cut / malformed / stalled '
        'upstream or a request with body or forwarded header')
ASSUMPTIONS = ['wall-clock bound (timeout + 350 ms slack) is measured, not proved', 'the upstream is on loopback',
               'proxy_handler is exercised with its built-in 5 s timeout only on behaviours that answer or close']
TIMEOUT_MS = 300
SLACK_MS = 350


GEN = {}


def upstream_oracle(g, seen):
    """Independent reading of what the upstream must receive: the request that came in (same method, target, version,
    header fields with the order of same-named fields kept, body) plus one X-Forwarded-For field naming the client's
    origin address.  -> None or a description of the difference"""
    den = G.denote_request(g)
    head, sep, body = seen.partition(b'\r\n\r\n')
    if not sep:
        return 'no blank line in what the upstream received'
    ls = head.split(b'\r\n')
    parts = ls[0].split(b' ')
    want_target = den['uri'] + (b'?' + den['q'] if den['q'] else b'')
    if len(parts) != 3 or parts[0] != G.METHODS[den['m']].encode() or parts[1] != want_target or parts[2] != den['v']:
        return 'request line %r, expected %r' % (ls[0][:80], b' '.join([G.METHODS[den['m']].encode(), want_target, den['v']])[:80])
    got = []
    for ln in ls[1:]:
        k, c, v = ln.partition(b': ')
        if not c:
            return 'bad header line %r' % ln[:60]
        got.append((k.lower(), v))
    want = list(den['h']) + [(b'x-forwarded-for', den['origin'].encode())]
    names = set(k for k, _ in want) | set(k for k, _ in got)
    for nme in names:
        if [v for k, v in want if k == nme] != [v for k, v in got if k == nme]:
            return 'header %r: upstream saw %r, expected %r' % (nme, [v for k, v in got if k == nme][:3], [v for k, v in want if k == nme][:3])
    if body != (den['c'] or b''):
        return 'body of %d bytes, expected %d' % (len(body), len(den['c'] or b''))
    return None


def run(ctx):
    rng = ctx.rng
    thorough = ctx.tier == 'thorough'
    lines, meta = [], []
    if ctx.replay:
        lines, meta = [ctx.replay['case']['line']], [('replay', None, None)]
    else:
        seeds = [b'HTTP/1.1 200 OK\r\nContent-Length: 5\r\nX-A: b\r\n\r\nhello',
                 b'HTTP/1.1 404 Not Found\r\nTransfer-Encoding: chunked\r\n\r\n3\r\nabc\r\nA\r\n0123456789\r\n0\r\n\r\n',
                 b'HTTP/1.0 301 Moved Permanently\r\nLocation: /x\r\n\r\n']
        reqs = []
        for _ in range(40 if thorough else 8 * ctx.scale):
            g = G.rand_request(rng, body_max=60, nheaders_max=6)
            raw = G.render_request(g)
            reqs.append(raw)
            g['peer_ip'] = '10.1.2.3'          # the address the harness parses the request under
            GEN[raw] = g
        reqs.append(b'GET /api/v1/items?x=1 HTTP/1.1\r\nHost: a\r\nX-Forwarded-For: 9.9.9.9\r\n\r\n')
        def add(kind, beh, req, info=None):
            lines.append('proxy %d %s %s' % (TIMEOUT_MS, beh, hx(req)))
            meta.append((kind, beh, info))
        # every cut of the seed responses, closing or stalling after the cut
        for s in seeds:
            step = 1 if thorough else 3
            for i in list(range(0, len(s), step)) + [len(s)]:
                add('cut' if i < len(s) else 'valid', 'send:%s:close' % s[:i].hex(), rng.choice(reqs), (s, i))
            for i in rng.sample(range(len(s)), 6 if thorough else 2):
                add('stall', 'send:%s:stall' % s[:i].hex(), rng.choice(reqs), (s, i))
        # valid responses, every status class, CL / chunked / close-delimited
        for k in range(300 if thorough else 40 * ctx.scale):
            code = G.STATUS[k % len(G.STATUS)]
            body = bytes(rng.getrandbits(8) for _ in range(rng.choice([0, 1, 5, 40, 300])))
            hs = G.rand_resp_headers(rng, 6)
            framing = ['cl', 'chunked', 'close'][k % 3]
            head = ('HTTP/1.1 %d %s\r\n' % (code, G.PHRASES[code])).encode()
            if framing == 'cl':
                hs.append(('Content-Length', str(len(body))))
                payload = body
            elif framing == 'chunked':
                hs.append(('Transfer-Encoding', 'chunked'))
                payload, _ = G.chunked_encode(rng, body)
            else:
                payload = body
            for kk, v in hs:
                head += ('%s: %s\r\n' % (kk, v)).encode()
            full = head + b'\r\n' + payload
            add('valid-' + framing, 'send:%s:close' % full.hex(), rng.choice(reqs), (code, body, framing))
            # a few cuts of every generated response as well (framed ones only: a close-delimited body has no end to miss)
            if framing != 'close' and len(full) > 1:
                for i in rng.sample(range(len(full)), 2 if thorough else 1):
                    add('cut', 'send:%s:close' % full[:i].hex(), rng.choice(reqs), (full, i))
        # every chunking of short bodies (all compositions), the chunked response must pass through as a plain body
        for blen in range(0, 7 if thorough else 5):
            body = bytes(rng.getrandbits(8) for _ in range(blen))
            for comp in G.compositions(blen):
                payload, _ = G.chunked_encode(rng, body, comp)
                add('valid-chunked', 'send:%s:close' % (b'HTTP/1.1 200 OK\r\nTransfer-Encoding: chunked\r\n\r\n' + payload).hex(),
                    rng.choice(reqs), (200, body, 'chunked'))
        # the upstream accepts the connection and then says nothing at all
        add('stall', 'send::stall', reqs[0], (b'', 0))
        for garbage in (b'', b'garbage', b'\r\n\r\n', b'HTTP/1.1 999 Nope\r\n\r\n', b'HTTP/1.1 200 OK\r\nNoColon\r\n\r\n',
                        'HTTP/1.1 200 OK\r\nX: €'.encode(), b'HTTP/1.1 200 OK\r\nContent-Length: 99999999999999\r\n\r\nab',
                        b'HTTP/1.1 200 OK\r\nTransfer-Encoding: chunked\r\n\r\nffffffffffffffff\r\nab', b'\xff\xfe\x00'):
            add('garbage', 'send:%s:close' % garbage.hex(), rng.choice(reqs))
        add('refused', 'refused', reqs[0])
        add('closeatonce', 'closeatonce', reqs[0])
        if thorough:
            add('trickle', 'trickle:%s:50' % seeds[0].hex(), reqs[0])
        # prefix stripping through the server's handler
        handler_cases = [('/api/*', '/api/v1/items'), ('/api*', '/apiary'), ('/*', '/x'), ('/a/b/*', '/a/b/'), ('/é/*', '/é/z'),
                         # the literal prefix occurring again right after itself must be stripped once only
                         ('/api/*', '/api//api/users'), ('/docs*', '/docs/docs/intro.html'), ('/*', '///x'), ('/*', '//x'),
                         ('/a*', '/aaa'), ('/ab*', '/ababab/c'), ('/api/*', '/api/api/users')]
        for _ in range(40 if thorough else 8 * ctx.scale):
            pre = rng.choice(['/', '/p', '/p/', '/ab', '/é/', '/x/y/'])
            rest = rng.choice(['', 'q', '/q', pre, pre.lstrip('/'), pre + pre, '/' + pre, 'z/' + pre])
            handler_cases.append((pre + '*', pre + rest))
        for pat, path in handler_cases:
            req = ('GET %s?q=1 HTTP/1.1\r\nHost: h\r\nConnection: close\r\n\r\n' % path).encode()
            lines.append('proxy_handler %s send:%s:close %s' % (hx(pat), seeds[0].hex(), hx(req)))
            meta.append(('handler', pat, path))
        for mode in ('rr', 'random'):
            for n in (1, 2, 3, 4):
                for th in (1, 3, 8):
                    lines.append('select %s %d %d %d' % (mode, n, th, 6))
                    meta.append(('select-' + mode, n, th))
    m = ctx.model(lines)
    im = ctx.impl(lines)
    ctx.evaluations += len(lines)
    for line, (kind, beh, info), a, b in zip(lines, meta, m, im):
        ctx.count('kind:' + kind)
        case = {'line': line[:1500], 'kind': kind}
        if b in ('PANIC', 'DIED', 'TIMEOUT'):
            ctx.report(case, b, 'a response', cls='proxy-' + b.lower(), failing_input=True, what='proxying %s' % b)
            continue
        if kind.startswith('select'):
            if kind == 'select-rr':
                if a != b:
                    ctx.report(case, b, a, cls='proxy-rr', failing_input=True, what='targets not chosen in strict rotation')
            else:
                n = beh
                ok = all(re.fullmatch(r't\d+', t) and int(t[1:]) < n for t in b.split(','))
                if not ok:
                    ctx.report(case, b, 'targets from the configured set', cls='proxy-random', failing_input=True, what='random target outside the set')
            continue
        bm = re.match(r'^resp (.*?)(?: elapsed=(\d+))? upstream=([0-9a-f]*)$', b)
        am = re.match(r'^resp (.*?) upstream=([0-9a-f]*)$', a)
        if not bm or not am:
            ctx.report(case, b[:300], a[:300], cls='proxy-harness', failing_input=False, what='unexpected runner output')
            continue
        resp_i, elapsed, up_i = bm.group(1), bm.group(2), bm.group(3)
        resp_m, up_m = am.group(1), am.group(2)
        code = int(re.search(r'code=(\d+)', resp_i).group(1))
        # direct reading of the property
        if kind in ('cut', 'stall', 'garbage', 'refused', 'closeatonce') and code != 502:
            # a cut that falls exactly at the end of a complete message is not a cut
            ctx.report(case, resp_i[:200], '502', cls='proxy-not-502', failing_input=True,
                       what='upstream %s but the proxy did not answer 502' % kind)
            continue
        if kind.startswith('valid-'):
            ucode, ubody, framing = info
            body_i = bytes.fromhex(resp_i.split(' b=')[1])
            if framing == 'close' and ubody and code == ucode and body_i == b'':
                ctx.report(case, 'body dropped', 'body passed through', cls='proxy-close-delimited', failing_input=True,
                           what='close-delimited upstream body returned empty')
            elif code != ucode or body_i != ubody:
                ctx.report(case, resp_i[:200], 'status %d, body of %d bytes' % (ucode, len(ubody)), cls='proxy-passthrough',
                           failing_input=True, what='valid upstream response not passed through')
                continue
        if elapsed is not None and int(elapsed) > TIMEOUT_MS + SLACK_MS:
            if kind == 'trickle':
                ctx.report(case, 'elapsed=%s' % elapsed, 'within timeout + slack', cls='proxy-trickle', failing_input=True,
                           what='one byte per 50 ms keeps every read under the timeout: total time unbounded')
            else:
                ctx.report(case, 'elapsed=%s' % elapsed, 'within %d ms' % (TIMEOUT_MS + SLACK_MS), cls='proxy-slow', failing_input=True,
                           what='proxy_request exceeded its timeout')
                continue
        # what the upstream received, read independently of the model (when it received a whole request)
        if line.startswith('proxy ') and up_i:
            g_ = GEN.get(bytes.fromhex(line.split(' ')[3][1:]))
            if g_ is not None:
                diff = upstream_oracle(g_, bytes.fromhex(up_i))
                ctx.count('upstream bytes read independently')
                if diff:
                    ctx.report(case, up_i[:400], 'the received request plus X-Forwarded-For', cls='proxy-upstream-request', failing_input=True,
                               what='the upstream did not receive the request that came in: ' + diff)
                    continue
        if resp_i != resp_m or up_i != up_m:
            ctx.report(case, (resp_i + ' upstream=' + up_i)[:400], (resp_m + ' upstream=' + up_m)[:400], cls='proxy-mismatch',
                       failing_input=False, what='implementation and model differ')
        if kind in ('cut', 'stall', 'garbage', 'handler') or 'body' in line:
            ctx.mark_nontrivial(line)
    for k in (0, len(lines) // 2):
        if k < len(lines):
            ctx.sample({'case': lines[k][:200], 'impl': im[k][:200]})
