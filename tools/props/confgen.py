"""Generator, renderer and independent oracle for Humphrey configuration files (shared by c15.py and c03_conf.py).

An abstract configuration (`gen_conf`) is a plain dict: every documented key optional, hosts with routes, routes of every
type. `render` turns it into a main file plus include files under a random layout (indentation, key/value gap, trailing
comments, comment-only and blank lines, key order, CRLF/LF, splitting of any section body into include files with relative
or absolute paths). `expected` computes, independently of both the Coq model and the Rust code, the canonical dump the
loader must produce. `mutants` applies the single-fault mutation classes of the property."""
import os

HV_ROOT = os.environ.get('HV_ROOT') or os.path.dirname(os.path.dirname(os.path.dirname(os.path.abspath(__file__))))
ABS_BASE = HV_ROOT + '/work/c15/abs'

DEFAULTS = {'address': '0.0.0.0', 'port': 80, 'threads': 32, 'timeout': 0, 'websocket': None, 'bl_mode': 'block',
            'log_level': 'warn', 'log_console': True, 'log_file': None, 'cache_size': 0, 'cache_time': 0, 'lb_mode': 'round-robin'}
UNIT = {'': 1, 'K': 1024, 'M': 1024 ** 2, 'G': 1024 ** 3}
NONASCII = ['é', '€', '\U0001F600', 'ß', ' ', '　', 'ı']


def hs(s):
    return 'h' + s.encode('utf-8').hex()


# ---------------------------------------------------------------------------------------------- abstract configurations

def rand_string(rng, kind='text'):
    if kind == 'host':
        return rng.choice(['localhost', '*.example.com', 'example.com', '127.0.0.1', '*', 'a.b.c', 'münchen.de', 'x*y', '*:8080'])
    if kind == 'addr':
        return rng.choice(['0.0.0.0', '127.0.0.1', '::1', '10.1.2.3', 'localhost'])
    if kind == 'target':
        return '%s:%d' % (rng.choice(['127.0.0.1', 'localhost', '10.0.0.2', 'backend']), rng.choice([80, 8000, 8080, 1234, 65535]))
    if kind == 'path':
        parts = [rng.choice(['var', 'www', 'static', 'srv', 'my files', 'données', 'a,b', 'x{y}', 'logo_256x256.png', '..', '']) for _ in
                 range(rng.randint(1, 3))]
        return ('/' if rng.random() < 0.7 else '') + '/'.join(parts)
    alphabet = 'abcxyz019 /._-:,{}*=\t' + 'é€'
    return ''.join(rng.choice(alphabet) for _ in range(rng.randint(0, 10)))


def rand_pattern(rng):
    segs = [rng.choice(['*', 'static', 'images', 'api', 'ws', 'v1', 'a b', 'é', 'index.html', 'x*']) for _ in range(rng.randint(0, 3))]
    p = '/' + '/'.join(segs)
    return p


def rand_route(rng):
    kind = rng.choice(['file', 'directory', 'proxy', 'redirect', 'websocket', 'directory', 'proxy'])
    r = {'patterns': [rand_pattern(rng) for _ in range(rng.choice([1, 1, 1, 2, 3]))], 'kind': kind, 'ws': None, 'lb_mode': None}
    if kind in ('file', 'directory'):
        r['value'] = rand_string(rng, 'path')
    elif kind == 'redirect':
        r['value'] = rng.choice(['/', '/app/dev', 'http://localhost/', 'https://example.com/é?q=1&r=2'])
    elif kind == 'proxy':
        r['targets'] = [rand_string(rng, 'target') for _ in range(rng.choice([1, 1, 2, 3]))]
        if rng.random() < 0.6:
            r['lb_mode'] = rng.choice(['round-robin', 'random'])
    if kind == 'websocket' or rng.random() < 0.2:
        r['ws'] = rand_string(rng, 'target')
    return r


def gen_conf(rng, small=False):
    c = {'set': {}, 'hosts': [], 'routes': [], 'extra': [], 'bl_ips': None}
    s = c['set']
    p = 0.35 if small else 0.6
    if rng.random() < p:
        s['address'] = rand_string(rng, 'addr')
    if rng.random() < p:
        s['port'] = rng.choice([80, 443, 8080, 0, 1, 65535, rng.randint(0, 65535)])
    if rng.random() < p:
        s['threads'] = rng.choice([1, 2, 8, 32, 256, rng.randint(1, 100000)])
    if rng.random() < p:
        s['timeout'] = rng.choice([0, 1, 5, 60, 3600, 2 ** 32, 2 ** 63 - 1])   # integer literals are i64
    if rng.random() < p / 2:
        s['websocket'] = rand_string(rng, 'target')
    if rng.random() < p:
        if rng.random() < 0.5:
            s['bl_file'] = rng.choice(['blacklist.txt', 'conf/blacklist.txt', 'b l.txt'])
            c['bl_ips'] = ['%d.%d.%d.%d' % tuple(rng.choice([0, 1, 9, 10, 127, 255, rng.randint(0, 255)]) for _ in range(4))
                           for _ in range(rng.randint(0, 4))]
        if rng.random() < 0.6:
            s['bl_mode'] = rng.choice(['block', 'forbidden'])
        s.setdefault('bl_section', True)
    if rng.random() < p:
        if rng.random() < 0.7:
            s['log_level'] = rng.choice(['error', 'warn', 'info', 'debug', 'INFO', 'Debug'])
        if rng.random() < 0.5:
            s['log_console'] = rng.random() < 0.5
        if rng.random() < 0.5:
            s['log_file'] = rng.choice(['humphrey.log', '/var/log/h.log', 'log é.txt'])
        s.setdefault('log_section', True)
    if rng.random() < p:
        if rng.random() < 0.8:
            unit = rng.choice(['', 'K', 'M', 'G', 'k', 'm', 'g'])
            n = rng.choice([0, 1, 4, 128, 512, 1023, rng.randint(0, 8000000)])
            s['cache_size'] = (n, unit)
        if rng.random() < 0.6:
            s['cache_time'] = rng.choice([0, 1, 60, 86400, rng.randint(0, 10 ** 9)])
        s.setdefault('cache_section', True)
    nh = rng.choice([0, 0, 1, 2]) if small else rng.randint(0, 4)
    for _ in range(nh):
        nr = rng.choice([0, 1, 2]) if small else rng.randint(0, 8)
        c['hosts'].append({'name': rand_string(rng, 'host'), 'quoted': rng.random() < 0.8,
                           'routes': [rand_route(rng) for _ in range(nr)]})
    nr = rng.choice([0, 1, 2]) if small else rng.randint(0, 8)
    c['routes'] = [rand_route(rng) for _ in range(nr)]
    # what else is configured: unknown keys and sections must not change anything
    for _ in range(rng.choice([0, 0, 1, 2])):
        c['extra'].append(rng.choice([
            ('kv', 'comment_style', '"hash"'), ('kv', 'max_connections', '1024'), ('kv', 'verbose', 'true'), ('kv', 'buffer', '16K'),
            ('sec', 'plugins', [('sec', 'php', [('kv', 'library', '"plugins/php.so"'), ('kv', 'port', '9000'), ('kv', 'threads', '8')])]),
            ('sec', 'tls', [('kv', 'cert_file', '"cert.pem"'), ('kv', 'key_file', '"key.pem"'), ('kv', 'force', 'true')]),
            ('sec', 'limits', [('kv', 'port', '1'), ('sec', 'log', [('kv', 'level', '"nonsense"')])]),
        ]))
    return c


# ---------------------------------------------------------------------------------------------- independent oracle

def route_dump(r):
    out = []
    ws = hs(r['ws']) if r['ws'] is not None else 'none'
    for p in r['patterns']:
        k = r['kind']
        if k in ('file', 'directory', 'redirect'):
            ty = {'file': 'file', 'directory': 'dir', 'redirect': 'redirect'}[k]
            out.append('%s:%s:%s:none:none:%s' % (ty, hs(p), hs(r['value']), ws))
        elif k == 'proxy':
            mode = {'round-robin': 'rr', 'random': 'random'}[r['lb_mode'] or DEFAULTS['lb_mode']]
            out.append('proxy:%s:none:%s:%s:%s' % (hs(p), ','.join(hs(t) for t in r['targets']), mode, ws))
        else:
            out.append('ws:%s:none:none:none:%s' % (hs(p), ws))
    return out


def routes_dump(rs):
    return '[' + ';'.join(x for r in rs for x in route_dump(r)) + ']'


def expected(c):
    """Canonical dump of the configuration that `c` describes (omitted keys at their documented defaults)."""
    s = c['set']
    g = lambda k: s.get(k, DEFAULTS[k])  # noqa: E731
    timeout = g('timeout')
    size = g('cache_size')
    if isinstance(size, tuple):
        size = size[0] * UNIT[size[1].upper()]
    ips = c['bl_ips'] if s.get('bl_file') is not None else []
    return 'ok addr=%s port=%d threads=%d timeout=%s ws=%s bl=%s:%s log=%s:%s:%s cache=%d:%d default=%s%s hosts=%s' % (
        hs(g('address')), g('port'), g('threads'), str(timeout) if timeout > 0 else 'none',
        hs(s['websocket']) if s.get('websocket') is not None else 'none',
        g('bl_mode'), ','.join(hs(i) for i in ips),
        g('log_level').lower(), 'true' if g('log_console') else 'false',
        hs(s['log_file']) if s.get('log_file') is not None else 'none',
        size, g('cache_time'), hs('*'), routes_dump(c['routes']),
        '|'.join(hs(h['name']) + routes_dump(h['routes']) for h in c['hosts']))


# ---------------------------------------------------------------------------------------------- items

def q(s):
    if isinstance(s, tuple):        # ('raw', text): injected verbatim (semantic mutants)
        return s[1]
    return '"' + s + '"'


def num(v):
    return v[1] if isinstance(v, tuple) and v[0] == 'raw' else str(v)


def route_item(r):
    body = []
    k = r['kind']
    if k in ('file', 'directory', 'redirect'):
        body.append(('kv', k, q(r['value'])))
    elif k == 'proxy':
        body.append(('kv', 'proxy', q(','.join(r['targets']))))
        if r['lb_mode'] is not None:
            body.append(('kv', 'load_balancer_mode', q(r['lb_mode'])))
    if r['ws'] is not None:
        body.append(('kv', 'websocket', q(r['ws'])))
    return ('sec', 'route ' + ', '.join(r['patterns']), body, 'route')


def interleave(rng, groups):
    """Random interleaving of several lists that keeps the order inside each list."""
    pools = [list(g) for g in groups if g]
    out = []
    while pools:
        i = rng.randrange(len(pools))
        out.append(pools[i].pop(0))
        if not pools[i]:
            pools.pop(i)
    return out


def items_of(c, rng, shuffle=True):
    """The `server` body as a list of items ('kv', key, text) / ('sec', header, body[, tag]); key order random, hosts and
    routes in their own relative order."""
    s = c['set']
    scal = []
    if 'address' in s:
        scal.append(('kv', 'address', q(s['address'])))
    for k in ('port', 'threads', 'timeout'):
        if k in s:
            scal.append(('kv', k, num(s[k])))
    if 'websocket' in s:
        scal.append(('kv', 'websocket', q(s['websocket'])))
    if s.get('bl_section'):
        b = []
        if 'bl_file' in s:
            b.append(('kv', 'file', q(s['bl_file'])))
        if 'bl_mode' in s:
            b.append(('kv', 'mode', q(s['bl_mode'])))
        scal.append(('sec', 'blacklist', b))
    if s.get('log_section'):
        b = []
        if 'log_level' in s:
            b.append(('kv', 'level', q(s['log_level'])))
        if 'log_console' in s:
            b.append(('kv', 'console', num(s['log_console']) if isinstance(s['log_console'], tuple) else
                      ('true' if s['log_console'] else 'false')))
        if 'log_file' in s:
            b.append(('kv', 'file', q(s['log_file'])))
        scal.append(('sec', 'log', b))
    if s.get('cache_section'):
        b = []
        if 'cache_size' in s:
            b.append(('kv', 'size', num(s['cache_size']) if s['cache_size'][0] == 'raw' else '%d%s' % s['cache_size']))
        if 'cache_time' in s:
            b.append(('kv', 'time', num(s['cache_time'])))
        scal.append(('sec', 'cache', b))
    scal += list(c['extra'])
    hosts = [('sec', 'host ' + (q(h['name']) if h['quoted'] else h['name']), [route_item(r) for r in h['routes']], 'host')
             for h in c['hosts']]
    routes = [route_item(r) for r in c['routes']]
    if not shuffle:
        return scal + hosts + routes
    rng.shuffle(scal)

    def shuf(items):
        out = []
        for it in items:
            if it[0] == 'sec' and (len(it) < 4):
                body = list(it[2])
                rng.shuffle(body)
                out.append(('sec', it[1], shuf(body)))
            elif it[0] == 'sec' and it[3] == 'route':
                body = list(it[2])
                rng.shuffle(body)
                out.append(('sec', it[1], body, 'route'))
            elif it[0] == 'sec':
                out.append(('sec', it[1], shuf(it[2]), it[3]))
            else:
                out.append(it)
        return out
    return shuf(interleave(rng, [scal, hosts, routes]))


# ---------------------------------------------------------------------------------------------- layout / rendering

class Layout:
    """Random layout decisions. plain=True gives the canonical layout (two-space indentation, no comments)."""

    def __init__(self, rng, plain=False, include_p=0.12, tag='0', allow_abs=True):
        self.rng = rng
        self.plain = plain
        self.include_p = 0 if plain else include_p
        self.files = {}
        self.nfile = 0
        self.inc_level = 0
        self.allow_abs = allow_abs
        self.tag = tag
        self.eol = '\n' if plain or rng.random() < 0.8 else '\r\n'

    def ws(self, lo=0, hi=6):
        if self.plain:
            return ''
        return ''.join(self.rng.choice('    \t') for _ in range(self.rng.randint(lo, hi)))

    def indent(self, depth):
        if self.plain:
            return '  ' * depth
        r = self.rng.random()
        if r < 0.5:
            return '    ' * depth
        if r < 0.6:
            return '\t' * depth
        return self.ws(0, 8)

    def gap(self):
        if self.plain:
            return ' '
        # the parser splits at the first space: at least one space somewhere in the gap
        g = self.ws(0, 4) + ' ' + self.ws(0, 4)
        return g

    def comment(self):
        if self.plain or self.rng.random() > 0.25:
            return ''
        text = self.rng.choice(['comment', ' this is a comment on a value', ' { not a section', ' } not the end', ' "quoted"',
                                ' include "nothing.conf"', '# double', ' é€', '', ' port 1'])
        return self.ws(0, 3) + '#' + text

    def filler(self, out):
        if self.plain:
            return
        while self.rng.random() < 0.2:
            r = self.rng.random()
            if r < 0.4:
                out.append(self.ws(0, 5))
            else:
                out.append(self.ws(0, 5) + '#' + self.rng.choice([' comment line', '', ' server {', ' }', 'route /* {', ' é']))

    def render_body(self, items, depth, out):
        """Renders a section body; may move a contiguous run of items into an include file."""
        items = list(items)
        i = 0
        while i < len(items):
            if self.rng.random() < self.include_p and self.inc_level < 6:
                n = self.rng.choice([0, 1, 1, 2, 3, len(items)])
                n = min(n, len(items) - i)
                sub, path = [], self.new_path()
                self.inc_level += 1
                self.render_body(items[i:i + n], self.rng.choice([0, depth]), sub)
                self.inc_level -= 1
                self.filler(sub)
                text = self.eol.join(sub)
                if sub and self.rng.random() < 0.7:
                    text += self.eol
                self.files[path] = text
                self.filler(out)
                out.append(self.indent(depth) + 'include' + self.gap() + q(path) + self.ws(0, 2) + self.comment())
                i += n
                if n == 0:
                    self.include_p *= 0.5       # empty include files are legal but need not dominate
                continue
            it = items[i]
            i += 1
            self.filler(out)
            if it[0] == 'kv':
                out.append(self.indent(depth) + it[1] + self.gap() + it[2] + self.ws(0, 2) + self.comment())
            else:
                hdr = it[1]
                if not self.plain and (it[1].startswith('route ') or it[1].startswith('host ')):
                    kw, rest = it[1].split(' ', 1)
                    hdr = kw + ' ' + self.ws(0, 2) + rest
                out.append(self.indent(depth) + hdr + (' ' if self.plain else self.ws(0, 2)) + '{' + self.ws(0, 2) + self.comment())
                self.render_body(it[2], depth + 1, out)
                self.filler(out)
                out.append(self.indent(depth) + '}' + self.ws(0, 2) + self.comment())

    def new_path(self):
        self.nfile += 1
        r = self.rng.random()
        if r < 0.6 or (not self.allow_abs and r >= 0.8):
            return 'inc%d.conf' % self.nfile
        if r < 0.8:
            return 'conf.d/part %d.conf' % self.nfile
        return '%s/%s/f%d.conf' % (ABS_BASE, self.tag, self.nfile)

    def render(self, items):
        out = []
        self.filler(out)
        if not self.plain and self.rng.random() < 0.3:
            out.append('# Configuration file')
        out.append(self.ws(0, 3) + 'server' + ' ' + '{' + self.ws(0, 2) + self.comment())
        self.render_body(items, 1, out)
        self.filler(out)
        out.append(self.ws(0, 3) + '}' + self.ws(0, 2) + self.comment())
        self.filler(out)
        text = self.eol.join(out)
        if self.plain or self.rng.random() < 0.8:
            text += self.eol
        return text


def make_case(c, rng, plain=False, tag='0', include_p=0.12, shuffle=True, allow_abs=True):
    """-> dict(main=text, files={path: text or None(dir)}, filename). allow_abs=False for a base from which several cases
    are derived: cases run in parallel processes and an absolute include path is a shared file."""
    lay = Layout(rng, plain=plain, include_p=include_p, tag=tag, allow_abs=allow_abs)
    main = lay.render(items_of(c, rng, shuffle=shuffle and not plain))
    files = dict(lay.files)
    if c['set'].get('bl_file') is not None:
        ips = c['bl_ips']
        if ips is not None:
            files[c['set']['bl_file']] = '\n'.join(ips) + ('\n' if ips and rng.random() < 0.7 else '')
    return {'main': main, 'files': files, 'filename': 'humphrey.conf'}


def case_line(cmd, case):
    a = [cmd, hs(case.get('filename', 'humphrey.conf')), hs(case['main'])]
    for p, content in case['files'].items():
        a.append(hs(p))
        if content is None:
            a.append('d')
        elif isinstance(content, bytes):
            a.append('h' + content.hex())
        else:
            a.append(hs(content))
    return ' '.join(a)


# ---------------------------------------------------------------------------------------------- single-fault mutants

def mutants(rng, case, per_class=1):
    """Single-fault mutants of the main file of a plain-layout or random-layout case.
    Yields (class, mutated_case, line_no (1-based) of the mutated line, expectation) where expectation is
    (set of acceptable syntax error classes or None = any error, line number or None = any line), or None = compare with
    the model only."""
    main = case['main']
    eol = '\r\n' if '\r\n' in main else '\n'
    lines = main.split(eol)

    def build(ls):
        d = dict(case)
        d['main'] = eol.join(ls)
        return d

    def code(l):
        return l.split('#', 1)[0]

    kv = [i for i, l in enumerate(lines) if code(l).strip() and not code(l).rstrip().endswith('{') and code(l).strip() != '}'
          and not code(l).strip().startswith('include')]
    opens = [i for i, l in enumerate(lines) if code(l).rstrip().endswith('{')]
    closes = [i for i, l in enumerate(lines) if code(l).strip() == '}']
    numeric = [i for i in kv if code(lines[i]).split()[-1][:1].isdigit()]
    quoted = [i for i in kv if code(lines[i]).rstrip().endswith('"')]

    def repl_value(i, new):
        c = code(lines[i]).rstrip()
        rest = lines[i][len(code(lines[i])):]
        if c.endswith('"'):
            k = c.index('"')
        else:
            k = len(c) - len(c.split()[-1])
        return c[:k] + new + ((' #' + rest[1:]) if rest else '')

    for _ in range(per_class):
        if opens:
            i = rng.choice(opens)
            c = code(lines[i])
            k = c.rindex('{')
            ls = list(lines)
            ls[i] = c[:k] + c[k + 1:] + lines[i][len(c):]
            # an opening brace removed: that line no longer parses (server line: no server section, line 0)
            yield 'missing-open-brace', build(ls), i + 1, (({'noserver'}, 0) if i == opens[0] else (None, None))
        if closes:
            i = rng.choice(closes)
            ls = list(lines)
            del ls[i]
            yield 'missing-close-brace', build(ls), i + 1, ({'eof'}, len(main_lines(d_main(ls, eol))) + 1)
        if kv:
            i = rng.choice(kv)
            c = code(lines[i])
            ls = list(lines)
            ls[i] = c[:len(c) - len(c.lstrip())] + c.split()[0] + (' #' + lines[i][len(c) + 1:] if len(lines[i]) > len(c) else '')
            yield 'missing-value', build(ls), i + 1, ({'syntax'}, i + 1)
        if numeric:
            i = rng.choice(numeric)
            ls = list(lines)
            old = code(lines[i]).split()[-1]
            bad = rng.choice([old + 'x', '0x10', '1_000', '1.5', '12 34', '--1', '1e3', '٣', old[:-1] + 'é' if len(old) > 1 else 'é',
                              '9223372036854775808', '-9223372036854775809', '99999999999G', '9007199254740993M'])
            ls[i] = repl_value(i, bad)
            yield 'bad-number', build(ls), i + 1, ({'value'}, i + 1)
            ls = list(lines)
            bad = rng.choice([old.rstrip('KMGkmg') + u for u in ('T', 'KB', 'Ki', 'B', 'kk', 'µ', 'К')])
            ls[i] = repl_value(i, bad)
            yield 'unknown-unit', build(ls), i + 1, ({'value'}, i + 1)
        if quoted:
            i = rng.choice(quoted)
            c = code(lines[i]).rstrip()
            ls = list(lines)
            which = rng.random()
            if which < 0.5:
                new = c[:-1]                      # closing quote dropped
            else:
                k = c.index('"')
                new = c[:k] + c[k + 1:]           # opening quote dropped
            ls[i] = new + lines[i][len(code(lines[i])):]
            yield 'unterminated-quote', build(ls), i + 1, ({'value'}, i + 1)
        if kv:
            # non-ASCII character inserted at a random position of a line (all positions are enumerated for seeds elsewhere)
            i = rng.choice(kv + opens + closes)
            k = rng.randint(0, len(lines[i]))
            ls = list(lines)
            ls[i] = lines[i][:k] + rng.choice(NONASCII) + lines[i][k:]
            yield 'non-ascii', build(ls), i + 1, None


def d_main(ls, eol):
    return eol.join(ls)


def main_lines(text):
    """str::lines() of Rust."""
    ls = text.split('\n')
    if ls and ls[-1] == '':
        ls.pop()
    return ls


def semantic_mutants(rng, c):
    """Configurations violating exactly one validation rule: yields (class, conf, expected 'verr:<class>' or syntax tuple)."""
    import copy

    def variant(f):
        d = copy.deepcopy(c)
        f(d)
        return d

    def sset(k, v, sec=None):
        def f(d):
            d['set'][k] = v
            if sec:
                d['set'][sec] = True
        return f
    yield 'bad-port', variant(sset('port', ('raw', rng.choice(['65536', '100000', '-1', '"eighty"', '"8080 "', '80K'])))), 'verr:port'
    yield 'bad-threads', variant(sset('threads', ('raw', rng.choice(['-5', '"many"', '"18446744073709551616"'])))), 'verr:threads'
    yield 'no-threads', variant(sset('threads', 0)), 'verr:nothreads'
    yield 'bad-timeout', variant(sset('timeout', ('raw', rng.choice(['-1', '"soon"', 'true'])))), 'verr:timeout'
    yield 'bad-blmode', variant(sset('bl_mode', rng.choice(['blok', 'Block', 'forbid', '', 'block '])  , 'bl_section')), 'verr:blmode'
    yield 'bad-loglevel', variant(sset('log_level', rng.choice(['loud', 'warning', '', 'inf', 'debug ']), 'log_section')), 'verr:loglevel'
    yield 'bad-logconsole', variant(sset('log_console', ('raw', rng.choice(['"yes"', '1', '"True"', '0'])), 'log_section')), 'verr:logconsole'
    yield 'bad-cachesize', variant(sset('cache_size', ('raw', rng.choice(['-1', '-1K', '"big"', 'true'])), 'cache_section')), 'verr:cachesize'
    yield 'bad-cachetime', variant(sset('cache_time', ('raw', rng.choice(['-1', '"long"', 'false'])), 'cache_section')), 'verr:cachetime'

    def bl_missing(d):
        d['set']['bl_file'] = 'missing.txt'
        d['set']['bl_section'] = True
        d['bl_ips'] = None
    yield 'blacklist-missing', variant(bl_missing), 'verr:blopen'

    def bl_badip(d):
        d['set']['bl_file'] = 'blacklist.txt'
        d['set']['bl_section'] = True
        d['bl_ips'] = ['1.2.3.4', rng.choice(['1.2.3', '256.1.1.1', 'localhost', '1.2.3.4 ', '', '01.2.3.4']), '5.6.7.8']
    yield 'blacklist-bad-ip', variant(bl_badip), 'verr:blip'

    def where(d):
        tgt = [d['routes']] + [h['routes'] for h in d['hosts']]
        return rng.choice(tgt)

    def bad_lb(d):
        r = rand_route(rng)
        r.update({'kind': 'proxy', 'targets': ['a:1', 'b:2'], 'lb_mode': rng.choice(['fastest', 'Random', 'roundrobin', ''])})
        rs = where(d)
        rs.insert(rng.randint(0, len(rs)), r)
    yield 'bad-lbmode', variant(bad_lb), 'verr:lbmode'

    def empty_route(d):
        r = {'patterns': [rand_pattern(rng)], 'kind': 'none', 'ws': None, 'lb_mode': None}
        rs = where(d)
        rs.insert(rng.randint(0, len(rs)), r)
    yield 'route-without-target', variant(empty_route), 'verr:route'


def nonascii_everywhere(case, ch):
    """The character ch inserted at every position of every line of the main file (one mutant per position)."""
    main = case['main']
    for k in range(len(main) + 1):
        d = dict(case)
        d['main'] = main[:k] + ch + main[k:]
        yield k, d
