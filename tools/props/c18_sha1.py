"""C18 / SHA-1 — model of sha1.rs (proved = RFC 3174 on bit strings) vs humphrey_ws::verif::sha1, with CPython hashlib as an
independent oracle for implementation, model and extracted specification."""
import hashlib
import os
import re
from tables import read_src as _read_src
from hv import hx, V, REPO
from props import c18_ws_common as common

PART = 'sha1'
RULE = ('SHA-1: corpus (RFC 3174 vectors) first; every message length 0..1100 (every padding / block-boundary case) with '
        '2 contents each in quick (0xff.., random) and 6 in thorough (zeros, 0xff.., ascending, 3 random), model vs '
        'implementation vs hashlib; random lengths up to 64 KiB (quick) / 1 MiB (thorough) implementation vs hashlib, the '
        'extracted model on those <= 4 KiB (quick) / 16 KiB (thorough); the extracted RFC 3174 bit-string spec vs hashlib on '
        'lengths 0..130 and a sample; constants of sha1.rs re-read and compared with the model. '
        'non-trivial = distinct (length, content kind) with length > 0')
ASSUMPTIONS = ['SHA-1: message length satisfies len*8+583 < 2^64 (every message that fits in memory); beyond it the usize '
               'expression overflows (theorem C18_sha1_overflow_boundary)',
               'u32::rotate_left, wrapping_add, from_be_bytes/to_be_bytes are modelled by their documented arithmetic meaning']

MODEL_MAX = {'quick': 4096, 'thorough': 16384}


def digest(m):
    return hashlib.sha1(m).hexdigest()


def constants_check(ctx):
    """Translator-for-data tie: the IVs and round constants in sha1.rs are the ones in the model (and so, by the
    Examples in props/C18_sha1.v, the RFC's)."""
    src = _read_src(os.path.join(REPO, 'humphrey-ws/src/util/sha1.rs'))
    got = [int(x, 16) for x in re.findall(r'0x([0-9A-Fa-f]{8})\b', src)]
    want = [0x67452301, 0xEFCDAB89, 0x98BADCFE, 0x10325476, 0xC3D2E1F0, 0x5A827999, 0x6ED9EBA1, 0x8F1BBCDC, 0xCA62C1D6]
    model_src = open(os.path.join(V, 'coq/theories/Sha1.v'), encoding='utf-8').read()
    model_ok = all(re.search(r'\b%d\b' % w, model_src) for w in want)
    ctx.count('sha1:constants-checked')
    # which constant plays which role is decided by the digests (implementation vs hashlib vs model on every case below);
    # here only: the source names exactly these nine 32-bit constants, wherever it declares them
    if sorted(got) != sorted(want) or not model_ok:
        ctx.report({'part': PART, 'constants_in_source': ['%08x' % g for g in got]}, 'source constants %s' % got,
                   'RFC 3174 constants %s' % want, cls='sha1-constants', failing_input=False,
                   what='the SHA-1 initial values / round constants in sha1.rs differ from RFC 3174 §5/§6.1')
    padexpr = re.search(r'\(\(self\.as_ref\(\)\.len\(\) \* 8 \+ (\d+)\) / (\d+)\) \* (\d+)', src)
    if padexpr:
        ctx.count('sha1:padding-expression-seen')


def corpus(ctx):
    out = []
    p = os.path.join(V, 'corpus/C18/sha1_vectors.txt')
    if os.path.exists(p):
        for line in open(p):
            line = line.strip()
            if line and not line.startswith('#'):
                out.append((bytes.fromhex(line), 'corpus'))
    return out


def gen(ctx, tier):
    thorough = tier == 'thorough'
    rng = ctx.rng
    cases = corpus(ctx)
    for n in range(0, 1101):
        kinds = [('ff', b'\xff' * n), ('rand', rng.randbytes(n))]
        if thorough:
            kinds += [('zero', b'\x00' * n), ('asc', bytes(i & 255 for i in range(n))),
                      ('rand2', rng.randbytes(n)), ('rand3', rng.randbytes(n))]
        for k, m in kinds:
            cases.append((m, 'len0-1100:' + k))
    return cases


def gen_big(ctx, tier):
    thorough = tier == 'thorough'
    rng = ctx.rng
    out = []
    top = (1 << 20) if thorough else (1 << 16)
    count = 300 if thorough else 40
    for i in range(count):
        # log-uniform sizes, plus exact block multiples and +-1 around them
        e = rng.uniform(10, top.bit_length() - 1)
        n = min(top, int(2 ** e))
        r = rng.random()
        if r < 0.25:
            n = (n // 64) * 64 + rng.choice([-9, -8, -1, 0, 1, 55, 56])
            n = max(0, min(top, n))
        out.append((rng.randbytes(n), 'random-big'))
    if thorough:
        out.append((rng.randbytes(1 << 20), 'random-big'))
        out.append((b'a' * 1000000, 'rfc-test3'))       # RFC 3174 TEST3
    return out


def report_impl(ctx, m, got, line):
    want = digest(m)
    ctx.report({'part': PART, 'line': line if len(line) < 5000 else None, 'length': len(m),
                'message_hex': m.hex() if len(m) <= 2048 else m[:64].hex() + '...', 'sha256_of_message': hashlib.sha256(m).hexdigest()},
               'impl=' + got, 'rfc3174=' + want, cls='sha1-mismatch', failing_input=True,
               what='SHA-1 of a %d-byte message: implementation returns %s, RFC 3174 / hashlib says %s' % (len(m), got, want))


def run(ctx):
    if ctx.replay:
        c = ctx.replay.get('case', {})
        if c.get('part') != PART:
            return
        if not c.get('line'):
            ctx.notes.append('sha1 replay: message too long to be stored; rerun the check with the recorded seed')
            return
        line = c['line']
        m = bytes.fromhex(line.split(' ')[1][1:])
        mo, io = ctx.both([line])
        if io[0] != digest(m):
            report_impl(ctx, m, io[0], line)
        if mo[0] != digest(m):
            ctx.report({'part': PART, 'line': line}, 'model=' + mo[0], 'oracle=' + digest(m), cls='model-vs-oracle',
                       failing_input=False, what='Coq model of sha1.rs disagrees with hashlib')
        return

    constants_check(ctx)
    tier = common.effective_tier(ctx, 'humphrey-ws/src/util/sha1.rs')

    # 1. corpus + every length 0..1100: model, implementation, hashlib
    cases = gen(ctx, tier)
    lines = ['sha1 ' + hx(m) for m, _ in cases]
    mo, io = ctx.both(lines)
    for (m, tag), a, b, line in zip(cases, mo, io, lines):
        want = digest(m)
        ctx.count('sha1:' + tag.split(':')[0])
        ctx.count('sha1:blocks=%d' % ((len(m) + 9 + 63) // 64) if len(m) < 192 else 'sha1:blocks>=4')
        if len(m) > 0:
            ctx.mark_nontrivial(('sha1', len(m), tag))
        if b != want:
            report_impl(ctx, m, b, line)
        if a != want:
            ctx.report({'part': PART, 'line': line, 'length': len(m)}, 'model=' + a, 'oracle=' + want, cls='model-vs-oracle',
                       failing_input=False, what='Coq model of sha1.rs disagrees with hashlib on a %d-byte message' % len(m))
        elif a != b and b == want:
            pass

    # 2. big random messages: implementation vs hashlib; model on the smaller ones
    big = gen_big(ctx, tier)
    blines = ['sha1 ' + hx(m) for m, _ in big]
    bo = ctx.impl(blines)
    ctx.evaluations += len(blines)
    for (m, tag), b, line in zip(big, bo, blines):
        ctx.count('sha1:' + tag)
        ctx.count('sha1:size>=2^%d' % max(0, len(m).bit_length() - 1))
        ctx.mark_nontrivial(('sha1', len(m), tag))
        if b != digest(m):
            report_impl(ctx, m, b, line)
    small = [(m, line) for (m, _), line in zip(big, blines) if len(m) <= MODEL_MAX.get(tier, 4096)]
    mo2 = ctx.model([l for _, l in small])
    for (m, line), a in zip(small, mo2):
        ctx.count('sha1:model-on-random-big')
        if a != digest(m):
            ctx.report({'part': PART, 'line': line if len(line) < 5000 else None, 'length': len(m)}, 'model=' + a,
                       'oracle=' + digest(m), cls='model-vs-oracle', failing_input=False,
                       what='Coq model of sha1.rs disagrees with hashlib on a %d-byte message' % len(m))

    # 3. the extracted RFC 3174 specification itself vs hashlib (guards the spec)
    rng = ctx.rng
    spec_msgs = [rng.randbytes(n) for n in range(0, 131)] + [rng.randbytes(rng.randint(131, 700)) for _ in range(12)]
    so = ctx.model(['sha1_spec ' + hx(m) for m in spec_msgs])
    for m, a in zip(spec_msgs, so):
        ctx.count('sha1:spec-vs-hashlib')
        if a != digest(m):
            ctx.report({'part': PART, 'line': 'sha1_spec ' + hx(m), 'length': len(m)}, 'spec=' + a, 'oracle=' + digest(m),
                       cls='spec-vs-oracle', failing_input=False,
                       what='the extracted RFC 3174 specification (Sha1Spec.sha1_spec) disagrees with hashlib')

    # 4. extraction spot check: Coq's own vm_compute of the model vs the extracted OCaml model on the same inputs
    xs = [rng.randbytes(n) for n in (0, 1, 55, 56, 64, 119, rng.randint(65, 300))]
    got, err = common.coq_cases(ctx, PART, ['Prelude', 'Sha1'], ['Sha1.sha1 ' + common.coq_list(m) for m in xs])
    ext = ctx.model(['sha1 ' + hx(m) for m in xs])
    if got is None or len(got) != len(xs):
        ctx.report({'part': PART, 'coqc': err}, 'coqc failed on the generated cases file', 'vm_compute results', cls='coq-cases',
                   failing_input=False, what='in-Coq evaluation of the SHA-1 model failed (extraction spot check could not run)')
    else:
        for m, a, b in zip(xs, got, ext):
            ctx.count('sha1:extraction-spot-check')
            if a != 'ok:' + b:
                ctx.report({'part': PART, 'line': 'sha1 ' + hx(m)}, 'extracted=' + b, 'vm_compute=' + a, cls='extraction',
                           failing_input=False, what='the extracted OCaml SHA-1 model and Coq vm_compute disagree')

    for m, tag in (cases[3], cases[120], cases[-1], big[0]):
        ctx.sample({'part': PART, 'length': len(m), 'stream': tag, 'sha1': digest(m)})
