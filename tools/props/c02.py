"""C02 — request parsing is faithful, segmentation-independent and round-trips.
Correspondence: Request::from_stream over a scripted reader vs the code-shaped Coq model (same read plan), plus the
flat model; oracle: the request's denotation computed independently from the generator's abstract request."""
import json
import os
from hv import hx, V
from props import httpgen as G

RULE = ('grammar-generated well-formed requests (5 methods, origin-form target, optional query, 0..60 headers incl. repeated '
        'names / non-ASCII values / Cookie / X-Forwarded-For lists with and without spaces and unparsable entries, '
        'Content-Length bodies 0..64 KiB) x read plans (all-at-once, byte-wise, every single split point for a subset, '
        'random); corpus first; non-trivial = has >= 2 headers or a body or a forwarded list')
ASSUMPTIONS = ['IpAddr::from_str is modelled for IPv4 dotted quads only in this check (IPv6 X-Forwarded-For entries are exercised '
               'by C19, whose model address parser is extended by a table computed with Python ipaddress)', 'the scripted reader never returns an I/O error other than EOF']
NEEDS_TOKIO = True


def corpus():
    p = V + '/corpus/C02'
    out = []
    if os.path.isdir(p):
        for f in sorted(os.listdir(p)):
            if f.endswith('.json'):
                out.append(json.load(open(os.path.join(p, f))))
    return out


def run(ctx):
    rng = ctx.rng
    thorough = ctx.tier == 'thorough'
    nreq = 20000 if thorough else 1500 * ctx.scale
    lines = []
    meta = []
    # corpus: raw byte strings with expected canonical parse (minimised earlier failures / repo test inputs)
    for c in corpus():
        data = bytes.fromhex(c['hex'])
        for plan in G.chunk_plans(rng, data, every_split=len(data) < 120):
            lines.append('req_parse %s %d %s' % (hx(c.get('peer', '9.9.9.9')), c.get('port', 80), G.plan_arg(plan)))
            meta.append(('corpus', c, None, data))
    if ctx.replay:
        lines = [ctx.replay['case']['line']]
        meta = [('replay', None, None, None)]
        nreq = 0
    for i in range(nreq):
        big = thorough and rng.random() < 0.02
        g = G.rand_request(rng, body_max=65536 if big else 300, nheaders_max=60 if rng.random() < 0.1 else 12)
        data = G.render_request(g)
        den = G.denote_request(g)
        plans = G.chunk_plans(rng, data, every_split=(i % 25 == 0 and len(data) < 300), nrandom=2)
        # trailing bytes after the request must not change the parse
        if rng.random() < 0.2:
            plans.append([data + b'GET / HTTP/1.1\r\n\r\n'])
        for plan in plans:
            lines.append('req_parse %s %d %s' % (hx(g['peer_ip']), g['port'], G.plan_arg(plan)))
            meta.append(('gen', g, den, data))
        lines.append('req_roundtrip %s %d %s' % (hx(g['peer_ip']), g['port'], hx(data)))
        meta.append(('rt', g, den, data))
        lines.append('req_parse_flat %s %d %s' % (hx(g['peer_ip']), g['port'], hx(data)))
        meta.append(('flat', g, den, data))
        if g['headers']:
            for n, v in g['headers']:
                if n.lower() == 'cookie':
                    lines.append('cookies %s' % hx(v))
                    meta.append(('cookie', v, None, None))
    if not ctx.replay:
        lines.append('cookies -')          # no Cookie header at all: no cookies (and no panic)
        meta.append(('cookie', None, None, None))
    # header lookup on collections with repeated names in mixed letter case: get = first, get_all = all in order,
    # remove = every one of that name
    HN = ['Content-Length', 'content-length', 'CONTENT-LENGTH', 'Cookie', 'cookie', 'X-Forwarded-For', 'x-forwarded-for', 'X-Custom',
          'x-custom', 'X-CUSTOM', 'Host', 'Connection', 'Accept', 'accept', 'Set-Cookie', 'set-cookie', 'X-Other']
    for i in range(0 if ctx.replay else (4000 if thorough else 400 * ctx.scale)):
        hs = [(rng.choice(HN), 'v%d' % k) for k in range(rng.randint(0, 8))]
        name = rng.choice(HN)
        lines.append('hdr_get %s %s' % (','.join('%s:%s' % (hx(k), hx(v)) for k, v in hs) or '-', hx(name)))
        meta.append(('hdr', (hs, name), None, None))
    m, im = ctx.both(lines)
    first_parse = {}
    for line, (kind, g, den, data), a, b in zip(lines, meta, m, im):
        ctx.count('kind:' + kind)
        if ' c=h' in a and ' c=h' in b:
            # a body is read with Read::take(n).read_to_end(): how many bytes that pulls from the source beyond the body
            # depends on std's adaptive read sizes, which the model does not reproduce (it reads exactly n); the number of
            # bytes consumed from the source is therefore compared only for requests without a body
            a = a.split(' consumed=')[0]
            b = b.split(' consumed=')[0]
        if kind in ('gen', 'corpus', 'replay', 'flat'):
            ctx.count('model:' + a.split(' ')[0].split(':')[0])
        if a != b:
            # correspondence broken on this input: does the implementation violate the property here?
            failing = False
            what = 'implementation and model differ'
            if kind in ('gen', 'flat') and den is not None:
                diff = G.request_matches(den, G.parse_show(b))
                if diff:
                    failing, what = True, 'parsed request differs from what the bytes denote: ' + diff
            elif kind == 'hdr':
                allv = [v for k, v in g[0] if k.lower() == g[1].lower()]
                want = 'first=%s all=[%s]' % (allv[0].encode().hex() if allv else 'none', ','.join(v.encode().hex() for v in allv))
                failing, what = b.split(' rest=')[0] != want, 'Headers::get / get_all / remove on repeated names differs'
            elif kind == 'rt':
                failing, what = True, 'serialise-then-parse differs from the model'
            if b in ('PANIC', 'DIED', 'TIMEOUT'):
                failing, what = True, 'the implementation crashed or hung (%s) where the model answers %s' % (b, a[:80])
            ctx.report({'line': line, 'kind': kind}, b[:600], a[:600], cls='req-mismatch', failing_input=failing, what=what)
            continue
        if kind == 'cookie':
            # independent reading of the Cookie header: pairs separated by ';', name and value around the first '=',
            # both trimmed; a piece without '=' is skipped; no header = no cookies
            want = []
            for piece in (g.split(';') if g is not None else []):
                if '=' in piece:
                    k_, v_ = piece.split('=', 1)
                    want.append('%s=%s' % (k_.strip().encode().hex(), v_.strip().encode().hex()))
            if b != '[' + ','.join(want) + ']':
                ctx.report({'line': line, 'kind': kind}, b[:300], '[' + ','.join(want)[:300] + ']', cls='req-cookies', failing_input=True,
                           what='cookies of the request differ from what the Cookie header denotes')
            elif len(want) >= 2:
                ctx.mark_nontrivial(line)
        if kind == 'hdr':
            hs, name = g
            allv = [v for k, v in hs if k.lower() == name.lower()]
            want = 'first=%s all=[%s]' % (allv[0].encode().hex() if allv else 'none', ','.join(v.encode().hex() for v in allv))
            if b.split(' rest=')[0] != want:
                ctx.report({'line': line, 'kind': kind}, b[:300], want, cls='req-header-lookup', failing_input=True,
                           what='Headers::get / get_all on repeated names: first / all-in-order expected')
            elif len(allv) >= 2:
                ctx.mark_nontrivial(line)
        if kind in ('gen', 'flat'):
            got = G.parse_show(b)
            diff = G.request_matches(den, got)
            if diff:
                ctx.report({'line': line, 'kind': kind, 'request': repr(g)[:400]}, b[:600], 'denotation: ' + repr(den)[:400],
                           cls='req-unfaithful', failing_input=True, what='parsed request differs from what the bytes denote: ' + diff)
            # segmentation independence: all plans of the same bytes give the same parse
            key = (data, g['peer_ip'], g['port'])
            core = b.split(' consumed=')[0].split(' rest=')[0]
            if key in first_parse and first_parse[key] != core:
                ctx.report({'line': line, 'kind': kind}, core[:400], first_parse[key][:400], cls='req-segmentation',
                           failing_input=True, what='parse depends on how the bytes are split across reads')
            first_parse.setdefault(key, core)
            if len(g['headers']) >= 2 or g['body'] or g['xff']:
                ctx.mark_nontrivial(data)
        if kind == 'rt':
            # parse(serialise(parse(x))) ≈ parse(x)
            if b.startswith('ser='):
                second = G.parse_show(b.split(' ', 1)[1])
                firstp = dict(den)
                firstp['h'] = den['h']
                diff = G.request_matches(den, second) if True else None
                if diff and not _only_header_order(den, second):
                    ctx.report({'line': line, 'kind': kind}, b[:600], 'round trip equal to first parse', cls='req-roundtrip',
                               failing_input=True, what='serialise-then-parse does not give an equal request: ' + diff)
            else:
                ctx.report({'line': line, 'kind': kind}, b[:300], 'well-formed request parses', cls='req-unfaithful',
                           failing_input=True, what='well-formed request rejected')
    # the tokio parser is the same text modulo .await: same model, second correspondence
    idx = [i for i, l in enumerate(lines) if l.startswith('req_parse')]
    if not thorough:
        idx = idx[::3]
    strip_body_consumed = lambda x: x.split(' consumed=')[0] if ' c=h' in x else x
    ctx.tokio_twin([lines[i] for i in idx], [m[i] for i in idx], 'req-mismatch-tokio', norm=strip_body_consumed)
    for k in (3, len(lines) // 2, len(lines) - 2):
        if 0 <= k < len(lines):
            ctx.sample({'case': lines[k][:300], 'model': m[k][:200], 'impl': im[k][:200]})


def _only_header_order(den, got):
    """True when got equals den except for the order between differently-named headers."""
    if 'err' in got or 'other' in got:
        return False
    for k in ('m', 'uri', 'q', 'v', 'c', 'origin', 'proxies', 'port'):
        if den[k] != got[k]:
            return False
    names = set(n for n, _ in den['h']) | set(n.lower() for n, _ in got['h'])
    for n in names:
        if [v for k, v in den['h'] if k == n] != [v for k, v in got['h'] if k.lower() == n]:
            return False
    return True
