"""C01 — one well-framed response per request on every connection, in order.
Real App on a loopback port (threaded runtime; tokio twin when the tokio harness is present) driven by client plans;
compared with the Coq model of client_handler (bytes, modulo the Date value) and judged directly by a strict reference
client against the property."""
import re
import time
from hv import hx

RULE = ('request sequences (1..5) over methods {GET,POST,PUT,DELETE,OPTIONS} x targets {routed, unrouted, CORS-configured, '
        'body-echoing, empty-body, panicking, own-headers} x Connection {keep-alive in any case, close, absent} x {HTTP/1.0, '
        'HTTP/1.1} x {well-formed, malformed start line/header/length, idle past timeout}; plans: request-at-a-time (client '
        'waits for each answer), one request split into 2..n segments or byte-wise, several requests in one segment '
        '(known finding F01); non-trivial = >= 2 requests or a split request or an error path')
NEEDS_TOKIO = True
ASSUMPTIONS = ['one TCP segment written while the server is blocked in read() is delivered by one read(); pauses of 4 ms separate '
               'segments (only matters for single requests, whose result is proved segmentation-independent)',
               'Date header value is checked for IMF-fixdate shape and closeness to the wall clock, then masked for the byte comparison',
               'TLS connections and the WebSocket hand-off are outside this check']

TARGETS = ['/fixed', '/nope', '/cors', '/wild', '/echo', '/empty', '/panic', '/own', '/fixed/x?q=1']
IMF = re.compile(rb'^(Mon|Tue|Wed|Thu|Fri|Sat|Sun), \d{2} (Jan|Feb|Mar|Apr|May|Jun|Jul|Aug|Sep|Oct|Nov|Dec) \d{4} \d{2}:\d{2}:\d{2} GMT$')


def gen_request(rng, force_ka=None):
    m = rng.choice(['GET', 'GET', 'POST', 'PUT', 'DELETE', 'OPTIONS'])
    t = rng.choice(TARGETS)
    v = rng.choice(['HTTP/1.1', 'HTTP/1.1', 'HTTP/1.0'])
    conn = rng.choice(['keep-alive', 'Keep-Alive', 'KEEP-ALIVE', 'close', None]) if force_ka is None else ('keep-alive' if force_ka else rng.choice(['close', None]))
    body = None
    hs = [('Host', 'localhost')]
    if conn is not None:
        hs.append(('Connection', conn))
    if m in ('POST', 'PUT') or (t == '/echo' and rng.random() < 0.7):
        body = bytes(rng.choice(b'abcxyz\r\n \x00\xff') for _ in range(rng.choice([0, 1, 3, 10, 200])))
        hs.append(('Content-Length', str(len(body))))
    if rng.random() < 0.3:
        hs.insert(rng.randint(0, len(hs)), ('X-Extra', 'é v'))
    rng.shuffle(hs)
    raw = ('%s %s %s\r\n' % (m, t, v)).encode() + b''.join(('%s: %s\r\n' % kv).encode() for kv in hs) + b'\r\n' + (body or b'')
    return {'m': m, 't': t, 'v': v, 'ka': conn is not None and conn.lower() == 'keep-alive', 'conn': conn, 'body': body, 'raw': raw,
            'bad': False}


def gen_malformed(rng):
    kind = rng.choice(['startline', 'header', 'length', 'method', 'version'])
    raw = {'startline': b'GET /fixed\r\nHost: x\r\n\r\n',
           'header': b'GET /fixed HTTP/1.1\r\nNoColonHere\r\n\r\n',
           'length': b'POST /echo HTTP/1.1\r\nContent-Length: 1x\r\n\r\nabc',
           'method': b'BREW /fixed HTTP/1.1\r\n\r\n',
           'version': b'GET /fixed \r\n\r\n'}[kind]
    return {'bad': True, 'raw': raw, 'ka': False, 'kind': kind}


def expected(reqs, idle_after):
    """the property's reading: list of expected responses and whether the server ends the connection itself"""
    out = []
    for i, r in enumerate(reqs):
        if idle_after is not None and i == idle_after:
            out.append({'code': 408})
            return out, True
        if r['bad']:
            out.append({'code': 400})
            return out, True
        path = r['t'].split('?')[0]
        routed = path != '/nope'
        if path == '/panic' and r['m'] != 'OPTIONS':
            return out, True
        e = {'v': r['v'].encode()}
        if r['m'] == 'OPTIONS':
            e['code'] = 204 if routed else 404
        else:
            e['code'] = 200 if routed else 404
            if routed:
                e['body'] = {'/fixed': b'hello', '/fixed/x': b'hello', '/cors': b'c', '/wild': b'w', '/echo': r['body'] or b'', '/empty': b'',
                             '/own': b'own'}[path]
        if routed and path == '/cors' and True:
            e['cors'] = True
        if routed and path == '/wild':
            e['cors'] = 'wild'      # Cors::wildcard(): origin and headers "*", no Allow-Methods line
        out.append(e)
        if not r['ka']:
            return out, True
    if idle_after is not None and idle_after == len(reqs):
        out.append({'code': 408})
        return out, True
    return out, False


def parse_responses(data):
    """strict reference client: returns (responses, stray_crlf_count, error)"""
    res, stray, i = [], 0, 0
    while i < len(data):
        if data[i:i + 2] == b'\r\n':         # known finding F32: CRLF outside the framing
            stray += 1
            i += 2
            continue
        j = data.find(b'\r\n\r\n', i)
        if j < 0:
            return res, stray, 'truncated head at %d' % i
        lines = data[i:j].split(b'\r\n')
        m = re.match(rb'^(HTTP/1\.[01]) (\d{3}) (.*)$', lines[0])
        if not m:
            return res, stray, 'bad status line %r' % lines[0][:60]
        hs = []
        for ln in lines[1:]:
            k, c, v = ln.partition(b': ')
            if not c:
                return res, stray, 'bad header line %r' % ln[:60]
            hs.append((k.lower(), v))
        i = j + 4
        cl = [v for k, v in hs if k == b'content-length']
        code = int(m.group(2))
        if cl:
            n = int(cl[0])
            body = data[i:i + n]
            if len(body) < n:
                return res, stray, 'body shorter than Content-Length'
            i += n
            delimited = True
        else:
            body = b''
            delimited = code in (204, 304) or code < 200
            if not delimited:
                # not self-delimiting: everything up to EOF is the body
                body = data[i:]
                i = len(data)
        res.append({'v': m.group(1), 'code': code, 'h': hs, 'body': body, 'delimited': delimited})
    return res, stray, None


SLOW_CLIENT_MS = 240     # the harness server's connection timeout is 300 ms (harness/src/c01.rs TIMEOUT_MS)


def check_property(exp, exp_closed, got, stray, err, closed, now):
    """returns (class, what) of the first violation, or None"""
    if err:
        return 'framing', 'server output is not a sequence of well-formed responses: ' + err
    if len(got) != len(exp):
        return 'count', 'expected %d response(s), got %d' % (len(exp), len(got))
    for k, (e, g) in enumerate(zip(exp, got)):
        if g['code'] != e['code']:
            return 'status', 'response %d: expected %d, got %d' % (k, e['code'], g['code'])
        if 'v' in e and g['v'] != e['v']:
            return 'version', 'response %d carries %r, request was %r' % (k, g['v'], e['v'])
        names = [n for n, _ in g['h']]
        date = [v for n, v in g['h'] if n == b'date']
        if not date or not IMF.match(date[0]):
            return 'headers', 'response %d (%d) has no valid Date header' % (k, g['code'])
        if b'server' not in names:
            return 'headers', 'response %d (%d) has no Server header' % (k, g['code'])
        if 'body' in e and g['body'] != e['body']:
            return 'body', 'response %d body differs' % k
        if e.get('cors') == 'wild':
            if not {b'access-control-allow-origin', b'access-control-allow-headers'} <= set(names):
                return 'cors', 'response %d lacks the wildcard CORS headers' % k
        elif e.get('cors') and not {b'access-control-allow-origin', b'access-control-allow-methods', b'access-control-allow-headers'} <= set(names):
            return 'cors', 'response %d lacks the route\'s CORS headers' % k
        last = k == len(exp) - 1
        if (not last or not exp_closed) and not g['delimited']:
            return 'undelimited', 'response %d (%d) is followed by more traffic but is not self-delimiting' % (k, g['code'])
        if not g['delimited'] and g['code'] >= 200 and g['code'] not in (204, 304):
            return 'headers', 'response %d (%d) has no Content-Length' % (k, g['code'])
    if closed != exp_closed:
        return 'keepalive', 'connection %s but should %s' % ('closed' if closed else 'stayed open', 'close' if exp_closed else 'stay open')
    return None


NAMED = (b'date', b'server', b'connection', b'content-length', b'content-type', b'access-control-allow-origin',
         b'access-control-allow-headers', b'access-control-allow-methods', b'location', b'upgrade', b'sec-websocket-accept')


def same_up_to_unnamed_headers(got, mod_bytes):
    """the implementation's responses equal the model's except for header fields the property does not name (a server that
    starts sending, say, X-Content-Type-Options still writes one well-framed response per request)"""
    mod, _, merr = parse_responses(mod_bytes)
    if merr or len(mod) != len(got):
        return False
    for g, m in zip(got, mod):
        if (g['v'], g['code'], g['body'], g['delimited']) != (m['v'], m['code'], m['body'], m['delimited']):
            return False
        pick = lambda r: [(n.lower(), v if n.lower() != b'date' else b'DATE') for n, v in r['h'] if n.lower() in NAMED]
        if pick(g) != pick(m):
            return False
        if [n for n, _ in m['h'] if n.lower() not in NAMED]:
            return False          # the model itself has other fields (handler-set ones): compare exactly
    return True


def mask_date(data):
    return re.sub(rb'\r\nDate: [^\r\n]*', b'\r\nDate: DATE', data)


def run(ctx):
    rng = ctx.rng
    thorough = ctx.tier == 'thorough'
    n = 2500 if thorough else 220 * ctx.scale
    cases = []
    if ctx.replay:
        cases = [(ctx.replay['case']['line'], None)]
        n = 0
    for i in range(n):
        k = rng.choice([1, 1, 2, 2, 3, 5])
        reqs = []
        for j in range(k):
            last = j == k - 1
            if last and rng.random() < 0.18:
                reqs.append(gen_malformed(rng))
            else:
                reqs.append(gen_request(rng, force_ka=None if last else True))
        idle_after = None
        if rng.random() < 0.12:
            idle_after = rng.randint(0, len(reqs))
            reqs = reqs[:idle_after]                      # nothing is sent after the idle gap
        family = rng.choice(['seq', 'seq', 'split', 'pipeline', 'stallmid', 'coalesce'])
        items = []
        stall_tail = None
        if family == 'stallmid':
            # the client stops in the middle of a request (after at least one byte) and stays silent past the timeout
            reqs = [r for r in reqs if not r['bad'] and r['ka']]
            extra = gen_request(rng, force_ka=True)
            stall_tail = extra['raw'][:rng.randint(1, len(extra['raw']) - 1)]
            idle_after = len(reqs)
        if family == 'coalesce' and len(reqs) < 2:
            family = 'seq'
        if family == 'pipeline' and len(reqs) >= 2:
            items.append(hx(b''.join(r['raw'] for r in reqs)))
            items.append('w')
        elif family == 'coalesce':
            # one segment carries a whole request and the first bytes of the next one (partial coalescing)
            for j, r in enumerate(reqs):
                raw = r['raw']
                if j == 0:
                    nxt = reqs[1]['raw']
                    k2 = rng.randint(1, len(nxt) - 1)
                    items += [hx(raw + nxt[:k2]), 'w', hx(nxt[k2:]), 'w']
                elif j >= 2:
                    items += [hx(raw), 'w']
        else:
            for r in reqs:
                raw = r['raw']
                if family == 'split' and len(raw) > 1:
                    if len(raw) <= 60 and rng.random() < 0.3:
                        segs = [raw[q:q + 1] for q in range(len(raw))]
                    else:
                        cuts = sorted(rng.sample(range(1, len(raw)), min(len(raw) - 1, rng.choice([1, 1, 2, 4]))))
                        segs = [raw[a:b] for a, b in zip([0] + cuts, cuts + [len(raw)])]
                    for s in segs:
                        items += [hx(s), 'p']
                    items[-1] = 'w'
                else:
                    items += [hx(raw), 'w']
        if stall_tail is not None:
            items += [hx(stall_tail), 'p']
        if idle_after is not None:
            items.append('i')
        line = 'conn ' + ','.join(items)
        cases.append((line, {'reqs': reqs, 'idle': idle_after, 'family': family if len(reqs) >= 2 or family != 'pipeline' else 'seq'}))
    lines = [c[0] for c in cases]
    m = ctx.model(lines)
    im = ctx.impl(lines)
    ctx.evaluations += len(lines)
    judge(ctx, cases, m, im, 'threaded')
    # the tokio runtime has no connection timeout (no 408): every plan without an idle gap is replayed on it
    tk = [i for i, c in enumerate(cases) if ',i' not in c[0] and not c[0].endswith(' i')]
    if ctx.tier != 'thorough':
        tk = tk[::2]
    if tk and not ctx.replay:
        tlines = [lines[i] for i in tk]
        tim = ctx.impl(tlines, tokio=True)
        ctx.evaluations += len(tlines)
        judge(ctx, [cases[i] for i in tk], [m[i] for i in tk], tim, 'tokio')
    # a panicking handler costs only its own connection: other open connections and the listener survive it
    if not ctx.replay:
        sl = ['survive %d' % k for k in ([1, 2, 3, 5] if thorough else [1, 3])]
        for line, b in zip(sl, ctx.impl(sl)):
            ctx.evaluations += 1
            ctx.count('panic-isolation cases')
            mm = re.match(r'^panicking=(\d+):(\d) others=(\d+)/(\d+) fresh=(\d)$', b)
            if not mm or mm.group(3) != mm.group(4) or mm.group(5) != '1':
                ctx.report({'line': line}, b, 'every other connection and a fresh one are served after the panic', cls='conn-panic-isolation',
                           failing_input=True, what='a panicking handler affected other connections: ' + b)
            elif mm.group(2) != '1' or mm.group(1) != '0':
                ctx.report({'line': line}, b, 'the panicking connection is closed without a response', cls='conn-panic-isolation',
                           failing_input=False, what='the connection whose handler panicked was not simply closed: ' + b)
            else:
                ctx.mark_nontrivial(line)
    for k in (0, len(lines) // 2):
        if k < len(lines) and cases[k][1]:
            ctx.sample({'family': cases[k][1]['family'], 'requests': [r['raw'].decode('latin-1')[:60] for r in cases[k][1]['reqs']],
                        'impl': im[k][:120]})


def judge(ctx, cases, m, im, runtime):
    now = time.time()
    for (line, info), a, b in zip(cases, m, im):
        if not b.startswith('out='):
            ctx.report({'line': line}, b, a[:200], cls='conn-harness', failing_input=(b in ('PANIC', 'DIED')), what='harness could not complete the connection: ' + b)
            continue
        got_bytes = bytes.fromhex(b.split(' ')[0][4:])
        closed = b.endswith('closed=1')
        mod_bytes = bytes.fromhex(a.split(' ')[0][4:])
        mod_end = a.split('end=')[1]
        mod_closed = mod_end in ('nokeepalive', '400', '408', 'panic', 'upgrade')
        got, stray, err = parse_responses(got_bytes)
        if stray:
            ctx.count('stray-crlf responses', stray)
            ctx.report({'line': line[:300]}, 'CRLF after body', 'body exactly Content-Length long', cls='stray-crlf', failing_input=True,
                       what='a non-empty body is followed by CRLF outside Content-Length')
        same = mask_date(got_bytes) == mod_bytes and closed == mod_closed
        if info is None:
            if not same:
                ctx.report({'line': line}, b[:400], a[:400], cls='conn-mismatch', failing_input=False, what='replay differs from the model')
            continue
        ctx.count(runtime + ':family:' + info['family'])
        ctx.count('model-end:' + mod_end)
        if info['family'] == 'stallmid':
            # a client that falls silent in the middle of a request: the connection timeout only covers the wait for the first
            # byte of a request (from_stream_with_timeout clears it afterwards), so nothing times out; outside the property's
            # quantifier ("idle past timeout" is the wait between requests) - compared with the model only
            # (the 400 is written only after the harness has half-closed, so the "closed" observation is not meaningful here)
            same = mask_date(got_bytes) == mod_bytes or (not err and same_up_to_unnamed_headers(got, mod_bytes))
            ctx.count('mid-request stall: model agrees' if same else 'mid-request stall: model differs')
            if not same:
                ctx.report({'line': line, 'runtime': runtime, 'family': 'stallmid'}, b[:400], a[:400], cls='conn-mismatch', failing_input=False,
                           what='mid-request stall: bytes on the wire differ from the model')
            continue
        exp, exp_closed = expected(info['reqs'], info['idle'])
        v = check_property(exp, exp_closed, got, stray, err, closed, now)
        gm = re.search(r' gap=(\d+) ', b)
        if v is not None and gm and int(gm.group(1)) >= SLOW_CLIENT_MS and got and got[-1]['code'] == 408:
            # the harness client itself (on a loaded machine) let about the connection timeout pass between an answer and its
            # next action: the server's 408 answers a wait that really was that long - the plan had an unplanned idle period
            # after some answered request (what was sent afterwards goes unanswered, as after any 408)
            if any(check_property(exp[:k] + [{'code': 408}], True, got, stray, err, closed, now) is None for k in range(1, len(exp) + 1)):
                ctx.count('slow harness client (gap >= %d ms): trailing 408 is the timed-out wait' % SLOW_CLIENT_MS)
                continue
        case = {'line': line, 'runtime': runtime, 'family': info['family'], 'requests': [r['raw'].decode('latin-1')[:80] for r in info['reqs']], 'idle': info['idle']}
        if v is not None:
            cls, what = v
            if info['family'] in ('pipeline', 'coalesce') and cls in ('count', 'keepalive', 'status'):
                ctx.report(case, what, 'one response per request', cls='readahead', failing_input=True,
                           what='several requests delivered in one read: ' + what)
            else:
                ctx.report(case, what + ' | ' + b[:300], 'property', cls='conn-' + cls, failing_input=True, what=what)
        elif not same and info['family'] not in ('pipeline', 'coalesce') and closed == mod_closed and not err and \
                same_up_to_unnamed_headers(got, mod_bytes):
            ctx.count('responses equal the model up to header fields the property does not name')
        elif not same and info['family'] not in ('pipeline', 'coalesce'):
            ctx.report(case, b[:400], a[:400], cls='conn-mismatch', failing_input=False,
                       what='bytes on the wire differ from the model (property holds on this input)')
        if len(info['reqs']) >= 2 or info['family'] == 'split' or info['idle'] is not None or any(r['bad'] for r in info['reqs']):
            ctx.mark_nontrivial(line)
