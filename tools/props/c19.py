"""C19 — blacklist: real verify_connection over loopback connections from 127.x.y.z / ::1 source addresses and the real
route handlers (hooks H5), vs the Coq model (proved: listed => never served, forwarded-listed => 403, all unlisted => served)."""
from hv import hx

RULE = ('mode {block, forbidden} x list contents (empty, the client, others, IPv4 and IPv6 entries) x route type {file, directory, '
        'proxy, redirect} x cache on/off x client source address in 127.0.0.0/8 or ::1 x X-Forwarded-For {absent, unlisted, '
        'listed, lists with spaces, unparsable entries}; non-trivial = the list names the client or a forwarded address')
ASSUMPTIONS = ['client source addresses: a fixed pool plus random addresses of 127.0.0.0/8 and ::1', 'IPv4-mapped IPv6 peers on a dual-stack listener are outside the model',
               'IPv6 text in X-Forwarded-For is parsed for the model by Python ipaddress (the theorems hold for every address '
               'parser; the driver instantiates it with the IPv4 model parser extended by that table); no zone ids, no '
               'IPv4-mapped forms']

V6 = ['::1', '2001:db8::1', '2001:DB8:0:0:0:0:0:1', '0:0:0:0:0:0:0:1', '::2', 'fe80::1', '[::1]', '::1:', '2001:db8::1::', ':1']
POOL = ['127.0.0.1', '127.0.0.9', '127.1.2.3', '127.255.255.254', '9.9.9.9', '10.0.0.1', '203.0.113.7']


def canon6(t):
    """canonical text of an IPv6 literal as std::net::Ipv6Addr prints it, or None when it is not one"""
    import ipaddress
    if ':' not in t or '%' in t or '.' in t:
        return None
    try:
        return str(ipaddress.IPv6Address(t))
    except ValueError:
        return None


def run(ctx):
    rng = ctx.rng
    n = 4000 if ctx.tier == 'thorough' else 260 * ctx.scale
    lines, meta = [], []
    if ctx.replay:
        lines, meta, n = [ctx.replay['case']['line']], [None], 0
    for i in range(n):
        mode = rng.choice(['block', 'forbidden'])
        v6 = rng.random() < 0.15
        peer = '::1' if v6 else rng.choice(POOL[:4])
        if not v6 and rng.random() < 0.4:
            # any address of 127.0.0.0/8 is a loopback source address on Linux
            peer = '127.%d.%d.%d' % (rng.randint(0, 255), rng.randint(0, 255), rng.randint(1, 254))
        lst = []
        r = rng.random()
        if r < 0.35:
            lst.append(peer)
        if rng.random() < 0.5:
            lst += rng.sample(POOL + ['::1', '2001:db8::1'], rng.randint(1, 3))
        lst = list(dict.fromkeys(lst))
        rng.shuffle(lst)
        xff = None
        if rng.random() < 0.6:
            k = rng.randint(1, 3)
            ents = [rng.choice(V6 if rng.random() < 0.3 else POOL + ['unknown', '1.2.3', '']) for _ in range(k)]
            sep = rng.choice([',', ', ', ' , '])
            xff = sep.join(ents).strip()
            if not xff:
                xff = None
        if i % 4 == 1:
            # forwarded-on-behalf scenario: an unlisted peer names a listed address (IPv4, or IPv6 under several spellings)
            tgt, spell = rng.choice([(a, a) for a in POOL[4:]] + [('::1', '::1'), ('::1', '0:0:0:0:0:0:0:1'),
                                                                    ('2001:db8::1', '2001:db8::1'),
                                                                    ('2001:db8::1', '2001:DB8:0:0:0:0:0:1'), ('::2', '0::2')])
            peer = rng.choice([a for a in POOL[:4]] + ['::1'])
            if peer == tgt:
                peer = '127.0.0.9'
            lst = [tgt] + [a for a in rng.sample(POOL + ['fe80::1'], rng.randint(0, 2)) if a != peer]
            lst = list(dict.fromkeys(lst))
            rng.shuffle(lst)
            ents = [rng.choice(['10.9.8.7', 'unknown', '::3', '']) for _ in range(rng.randint(0, 2))]
            ents.insert(rng.randint(0, len(ents)), spell)
            xff = rng.choice([',', ', ', ' , ']).join(ents).strip()
        route = ['file', 'directory', 'proxy', 'redirect'][(i // 4) % 4 if i % 4 == 1 else i % 4]
        cache = rng.random() < 0.5
        ipmap = ','.join('%s=%s' % (hx(e.strip()), hx(canon6(e.strip()))) for e in (xff or '').split(',') if canon6(e.strip()))
        lines.append('bl %s %s %s %d %s %s %s' % (mode, ','.join(hx(x) for x in lst) if lst else '-', route, int(cache), hx(peer),
                                                    hx(xff) if xff is not None else '-', ipmap or '-'))
        meta.append((mode, lst, route, peer, xff))
    m = ctx.model(lines)
    im = ctx.impl(lines)
    ctx.evaluations += len(lines)
    for line, me, a, b in zip(lines, meta, m, im):
        if b == 'dropped':
            got = 'dropped'
        elif b.startswith('status=403'):
            got = 'forbidden'
        elif b.startswith('status=') and 'content=1' in b:
            got = 'served'
        else:
            got = 'other:' + b
        ctx.count('model:' + a)
        if me is not None:
            ctx.count('route:' + me[2])
            mode, lst, route, peer, xff = me
            fwd = [canon6(e.strip()) or e.strip() for e in (xff or '').split(',')]
            listed_peer = peer in lst
            listed_fwd = any(e in lst for e in fwd)
            if listed_peer or listed_fwd:
                ctx.mark_nontrivial(line)
            # the property, read directly
            if listed_peer and got == 'served':
                ctx.report({'line': line}, b, 'dropped or 403', cls='bl-listed-served', failing_input=True,
                           what='client at listed address %s received content (%s route, %s mode, X-Forwarded-For=%r)' % (
                               peer, route, mode, xff))
                continue
            if not listed_peer and listed_fwd and got != 'forbidden':
                ctx.report({'line': line}, b, '403', cls='bl-forwarded', failing_input=True,
                           what='request forwarded on behalf of a listed address was not answered 403')
                continue
            if not listed_peer and not listed_fwd and got != 'served':
                ctx.report({'line': line}, b, 'served', cls='bl-unlisted-refused', failing_input=True,
                           what='unlisted client was not served')
                continue
        if got != a:
            ctx.report({'line': line}, b, a, cls='bl-mismatch', failing_input=False, what='implementation and model differ')
    for k in (0, len(lines) // 2):
        if k < len(lines):
            ctx.sample({'case': lines[k], 'impl': im[k], 'model': m[k]})
    if not ctx.replay or ctx.replay['case'].get('line', '').startswith('srv '):
        server_part(ctx)


def server_part(ctx):
    """End to end: humphrey_server::server::main started from a configuration text with a blacklist file; clients connect
    from chosen loopback source addresses (with_connection_condition(verify_connection) and the per-route checks as wired
    by the real server)."""
    rng = ctx.rng
    n = 400 if ctx.tier == 'thorough' else 24 * ctx.scale
    lines, meta = [], []
    if ctx.replay:
        lines, meta, n = [ctx.replay['case']['line']], [None], 0
    for i in range(n):
        mode = ['block', 'forbidden'][i % 2]
        lst = rng.sample(POOL[:4] + ['10.0.0.1', '203.0.113.7', '::1'], rng.randint(1, 3))
        cache = rng.random() < 0.5
        conf = '\n'.join(['server {', '  address "127.0.0.1"', '  port 8080', '  threads 8', '  log {', '    level "error"', '    console false', '  }',
                          '  blacklist {', '    file "@FIX@/bl.txt"', '    mode "%s"' % mode, '  }'] +
                         (['  cache {', '    size 1M', '    time 60', '  }'] if cache else []) +
                         ['  route /f {', '    file "@FIX@/page.html"', '  }', '  route /r {', '    redirect "/elsewhere"', '  }',
                          '  route /d/* {', '    directory "@FIX@/dir"', '  }', '  route /p {', '    proxy "@UP@"', '  }',
                          '  route /w {', '    file "@FIX@/page.html"', '    websocket "@UP@"', '  }', '}']) + '\n'
        fixtures = ','.join(['%s:%s' % (hx('bl.txt'), hx('\n'.join(lst) + '\n')), '%s:%s' % (hx('page.html'), hx('PAGE')),
                             '%s:%s' % (hx('dir/x.txt'), hx('DIRFILE'))])
        reqs = []
        for _ in range(6):
            peer = rng.choice(POOL[:4])
            xff = rng.choice([None, None, rng.choice(POOL), '%s, %s' % (rng.choice(POOL), rng.choice(POOL + ['::1', 'unknown']))])
            target = rng.choice(['/f', '/r', '/d/x.txt', '/p', '/w'])
            reqs.append((peer, xff, target, False))
        # WebSocket upgrade requests: to the route with a `websocket` target (tunnelled unless blacklisted) and to one
        # without (closed without a response). Every tunnel keeps a worker of the real server busy, hence only a few.
        for _ in range(3):
            peer = rng.choice(POOL[:4])
            xff = rng.choice([None, None, rng.choice(POOL)])
            reqs.append((peer, xff, rng.choice(['/w', '/w', '/f']), True))
        # an unlisted client fetches everything first, so that cached answers exist when the cache is on
        warm = [('127.0.0.77', None, t, False) for t in ('/f', '/d/x.txt')]
        allr = warm + reqs
        toks = set(lst) | {e.strip() for _, x, _, _ in allr if x for e in x.split(',')}
        ipmap = ','.join('%s=%s' % (hx(t), hx(canon6(t))) for t in sorted(toks) if canon6(t))
        lines.append('srv %s %s %s %s' % (hx(conf), fixtures, ','.join('%s:%s:%s:%s:-:%s' % (hx('x'), hx(t), hx(p), hx(x) if x else '-', 'ws' if w else '-') for p, x, t, w in allr),
                                          ipmap or '-'))
        meta.append((mode, lst, allr))
    im = ctx.impl(lines)
    ctx.evaluations += len(lines)
    from props import srvmodel
    srvmodel.compare(ctx, lines, im, 'bl-server', 'blacklist through the config-driven server')
    for line, me, b in zip(lines, meta, im):
        ctx.count('kind:server-e2e')
        if me is None:
            ctx.sample({'replayed': line[:200], 'impl': b[:300]})
            continue
        mode, lst, allr = me
        got = b.split(',')
        if len(got) != len(allr):
            ctx.report({'line': line[:4000], 'kind': 'server-e2e'}, b[:300], 'one answer per request', cls='bl-server',
                       failing_input=b in ('PANIC', 'DIED', 'TIMEOUT'), what='the config-driven server did not answer: ' + b[:100])
            continue
        for (peer, xff, target, ws), g in zip(allr, got):
            fwd = [canon6(e.strip()) or e.strip() for e in (xff or '').split(',')]
            listed_peer, listed_fwd = peer in lst, any(e in lst for e in fwd)
            if listed_peer and mode == 'block':
                want = 'dropped'
            elif ws and target != '/w':
                # an upgrade request that no WebSocket route takes is closed without a response, whoever sends it (as an
                # unrouted plain request is answered 404 for everybody): nothing is served
                want = 'dropped'
            elif listed_peer or listed_fwd:
                want = 'forbidden'
            else:
                want = 'served'
            cls = 'dropped' if g == 'noresp' else 'forbidden' if g.startswith('403:') else 'served' if g[:4] in ('200:', '301:') else 'other'
            if cls == 'served':
                body_ok = ('200:body:' + b'UPSTREAM'.hex()) if ws else {'/f': '200:body:' + b'PAGE'.hex(), '/w': '200:body:' + b'PAGE'.hex(), '/r': '301:loc:' + b'/elsewhere'.hex(), '/d/x.txt': '200:body:' + b'DIRFILE'.hex(), '/p': '200:body:' + b'UPSTREAM'.hex()}[target]
                if g != body_ok:
                    cls = 'other'
            if cls != want:
                ctx.report({'line': line[:4000], 'kind': 'server-e2e', 'request': [peer, xff, target, 'upgrade' if ws else 'plain'], 'mode': mode, 'list': lst}, g[:200], want,
                           cls='bl-server', failing_input=True,
                           what='real server, %s mode, list %r: client %s (X-Forwarded-For %r) asking %s got %s, expected %s' % (
                               mode, lst, peer, xff, target, g[:60], want))
            elif want != 'served':
                ctx.mark_nontrivial(line + peer + str(xff) + target)
    import shutil
    from hv import V
    shutil.rmtree(V + '/work/c04srv', ignore_errors=True)
