"""C19 — blacklist: real verify_connection over loopback connections from 127.x.y.z / ::1 source addresses and the real
route handlers (hooks H5), vs the Coq model (proved: listed => never served, forwarded-listed => 403, all unlisted => served)."""
from hv import hx

RULE = ('mode {block, forbidden} x list contents (empty, the client, others, IPv4 and IPv6 entries) x route type {file, directory, '
        'proxy, redirect} x cache on/off x client source address in 127.0.0.0/8 or ::1 x X-Forwarded-For {absent, unlisted, '
        'listed, lists with spaces, unparsable entries}; non-trivial = the list names the client or a forwarded address')
ASSUMPTIONS = ['IPv4-mapped IPv6 peers on a dual-stack listener are outside the model',
               'X-Forwarded-For entries are IPv4 or unparsable text in the generated cases (IPv6 entries appear in the list only)']

POOL = ['127.0.0.1', '127.0.0.9', '127.1.2.3', '127.255.255.254', '9.9.9.9', '10.0.0.1', '203.0.113.7']


def run(ctx):
    rng = ctx.rng
    n = 4000 if ctx.tier == 'thorough' else 260
    lines, meta = [], []
    if ctx.replay:
        lines, meta, n = [ctx.replay['case']['line']], [None], 0
    for i in range(n):
        mode = rng.choice(['block', 'forbidden'])
        v6 = rng.random() < 0.08
        peer = '::1' if v6 else rng.choice(POOL[:4])
        lst = []
        r = rng.random()
        if r < 0.35:
            lst.append(peer)
        if rng.random() < 0.5:
            lst += rng.sample(POOL + ['::1', '2001:db8::1'], rng.randint(1, 3))
        lst = list(dict.fromkeys(lst))
        rng.shuffle(lst)
        xff = None
        if rng.random() < 0.6:
            k = rng.randint(1, 3)
            ents = [rng.choice(POOL + ['unknown', '1.2.3', '']) for _ in range(k)]
            sep = rng.choice([',', ', ', ' , '])
            xff = sep.join(ents).strip()
            if not xff:
                xff = None
        route = ['file', 'directory', 'proxy', 'redirect'][i % 4]
        cache = rng.random() < 0.5
        lines.append('bl %s %s %s %d %s %s' % (mode, ','.join(hx(x) for x in lst) if lst else '-', route, int(cache), hx(peer),
                                                 hx(xff) if xff is not None else '-'))
        meta.append((mode, lst, route, peer, xff))
    m = ctx.model(lines)
    im = ctx.impl(lines)
    ctx.evaluations += len(lines)
    for line, me, a, b in zip(lines, meta, m, im):
        if b == 'dropped':
            got = 'dropped'
        elif b.startswith('status=403'):
            got = 'forbidden'
        elif b.startswith('status=') and 'content=1' in b:
            got = 'served'
        else:
            got = 'other:' + b
        ctx.count('model:' + a)
        if me is not None:
            ctx.count('route:' + me[2])
            mode, lst, route, peer, xff = me
            fwd = [e.strip() for e in (xff or '').split(',')]
            listed_peer = peer in lst
            listed_fwd = any(e in lst for e in fwd)
            if listed_peer or listed_fwd:
                ctx.mark_nontrivial(line)
            # the property, read directly
            if listed_peer and got == 'served':
                ctx.report({'line': line}, b, 'dropped or 403', cls='bl-listed-served', failing_input=True,
                           what='client at listed address %s received content (%s route, %s mode, X-Forwarded-For=%r)' % (
                               peer, route, mode, xff))
                continue
            if not listed_peer and listed_fwd and got != 'forbidden':
                ctx.report({'line': line}, b, '403', cls='bl-forwarded', failing_input=True,
                           what='request forwarded on behalf of a listed address was not answered 403')
                continue
            if not listed_peer and not listed_fwd and got != 'served':
                ctx.report({'line': line}, b, 'served', cls='bl-unlisted-refused', failing_input=True,
                           what='unlisted client was not served')
                continue
        if got != a:
            ctx.report({'line': line}, b, a, cls='bl-mismatch', failing_input=False, what='implementation and model differ')
    for k in (0, len(lines) // 2):
        if k < len(lines):
            ctx.sample({'case': lines[k], 'impl': im[k], 'model': m[k]})
