"""C18 — SHA-1, Base64, percent-encoding, HTTP dates: aggregates the four parts (each part is its own module)."""
import importlib

PARTS = ['c18_sha1', 'c18_b64', 'c18_pct', 'c18_date']
RULE = 'see the per-part rules in coverage.part_rules'
ASSUMPTIONS = []
TRUSTED_EXTRA = []


def _mods():
    out = []
    for p in PARTS:
        try:
            out.append(importlib.import_module('props.' + p))
        except ModuleNotFoundError:
            pass
    return out


def run(ctx):
    rules = {}
    for m in _mods():
        m.run(ctx)
        rules[m.__name__.split('.')[-1]] = getattr(m, 'RULE', '')
        for a in getattr(m, 'ASSUMPTIONS', []):
            if a not in ASSUMPTIONS:
                ASSUMPTIONS.append(a)
    ctx.extra['part_rules'] = rules
    ctx.rule = ' | '.join('%s: %s' % kv for kv in rules.items())
