"""C10 — WebSocket frame codec: model (Frame.v, proved against the RFC 6455 layout of FrameSpec.v) vs
humphrey-ws/src/frame.rs through the cfg(humphrey_verif) hook, plus an independent Python RFC 6455 codec as oracle.

Streams: corpus/C10 -> exhaustive (all FIN x RSV x opcode x mask variants x boundary lengths; all 65 536 two-byte
headers with complete and truncated remainders; every split point of short frames) -> random (random lengths up to
1 MiB, random read plans, truncations, huge claimed lengths, non-minimal length forms, trailing bytes).
Every implementation call runs in a harness process with an address-space limit, so a buffer allocated from a
claimed length kills the process (reported as DIED) instead of passing unnoticed."""
import json
import os
import hv
from hv import hx

RULE = ('all 16 FIN/RSV combinations x 6 opcodes x mask {off, key 0, one non-zero key byte, random key} x payload lengths '
        '{0,1,124,125,126,127,128} (complete cross) and {65534,65535,65536,65537} (quick: every flag/opcode/mask value at '
        'least once per length; thorough: complete cross), each encoded on both sides, compared with an independent RFC 6455 '
        'encoder and decoded back under all-at-once / 1-byte / random read plans; all 65 536 two-byte headers followed by a '
        'complete and by a truncated remainder; every split point (and every pair of split points for frames <= 14 bytes) of '
        '~60 short frames; random frames up to 64 KiB (quick) / 1 MiB (thorough) with random plans, truncations, trailing '
        'bytes, non-minimal length forms, claimed lengths up to 2^64-1, plans with reads returning 0 (oracle = the bytes before the first such read); non-trivial = masked with non-zero '
        'key, or extended length form, or split inside the header')
ASSUMPTIONS = ['the scripted Read of the harness (one read never crosses a chunk boundary; Ok(0) after the last chunk) is what '
               'Stream.v models; std read_exact / Take / read_to_end behave as documented',
               'payload Vec capacity observed on success; on failure the allocation bound is observed only through the '
               'address-space limit (%d MiB) of the harness process' % 1536]
TRUSTED_EXTRA = ['tools/props/c10.py: independent Python RFC 6455 encoder/decoder used as property oracle']

OPCODES = [0, 1, 2, 8, 9, 10]
RESERVED = [3, 4, 5, 6, 7, 11, 12, 13, 14, 15]
AS_LIMIT_KB = 1536 * 1024


# ---------------------------------------------------------------------------------------------------
# independent oracle (RFC 6455 section 5.2), bytes in / bytes out

def py_encode(fl, op, mask, key, payload):
    """fl = fin<<3 | rsv1<<2 | rsv2<<1 | rsv3"""
    n = len(payload)
    out = bytearray([(fl << 4) | op])
    m = 0x80 if mask else 0
    if n < 126:
        out.append(m | n)
    elif n < 65536:
        out.append(m | 126)
        out += n.to_bytes(2, 'big')
    else:
        out.append(m | 127)
        out += n.to_bytes(8, 'big')
    if mask:
        out += key
        out += py_xor(key, payload)
    else:
        out += payload
    return bytes(out)


def py_xor(key, data):
    if not data:
        return b''
    if key == b'\0\0\0\0':
        return bytes(data)
    n = len(data)
    k = (key * (n // 4 + 1))[:n]
    return (int.from_bytes(data, 'big') ^ int.from_bytes(k, 'big')).to_bytes(n, 'big')


def py_decode(data):
    """-> ('ok', dict, consumed) | ('err:read',) | ('err:opcode',)"""
    if len(data) < 2:
        return ('err:read',)
    h0, h1 = data[0], data[1]
    op = h0 & 15
    if op not in OPCODES:
        return ('err:opcode',)
    pos = 2
    n = h1 & 127
    if n == 126:
        if len(data) < pos + 2:
            return ('err:read',)
        n = int.from_bytes(data[pos:pos + 2], 'big')
        pos += 2
    elif n == 127:
        if len(data) < pos + 8:
            return ('err:read',)
        n = int.from_bytes(data[pos:pos + 8], 'big')
        pos += 8
    mask = h1 >= 128
    key = b'\0\0\0\0'
    if mask:
        if len(data) < pos + 4:
            return ('err:read',)
        key = data[pos:pos + 4]
        pos += 4
    if len(data) < pos + n:
        return ('err:read',)
    payload = py_xor(key, data[pos:pos + n])
    return ('ok', {'fin': h0 >> 7, 'rsv': '%d%d%d' % ((h0 >> 6) & 1, (h0 >> 5) & 1, (h0 >> 4) & 1), 'op': op,
                   'mask': int(mask), 'len': n, 'key': key.hex(), 'payload': payload}, pos + n)


def digest(b):
    if len(b) <= 48:
        return 'h' + b.hex()
    h = int.from_bytes(b, 'big') % 4294967291
    return '%d:%08x:%s:%s' % (len(b), h, b[:16].hex(), b[-8:].hex())


def show_ok(d, consumed):
    return 'ok fin=%d rsv=%s op=%d mask=%d len=%d key=%s payload=%s consumed=%d' % (
        d['fin'], d['rsv'], d['op'], d['mask'], d['len'], d['key'], digest(d['payload']), consumed)


def py_chunk_sizes(plan, total):
    out, left = [], total
    for tok in plan.split(','):
        if tok in ('-', ''):
            continue
        if tok[0] == '*':
            k = int(tok[1:])
            while left > 0:
                n = min(k, left)
                out.append(n)
                left -= n
        else:
            n = int(tok)
            if n == 0:
                out.append(0)
            elif left > 0:
                n = min(n, left)
                out.append(n)
                left -= n
    if left > 0:
        out.append(left)
    return out


def effective(data, plan):
    """the bytes a reader can see before its first 0-byte read (= all of them when the plan has none)"""
    sizes = py_chunk_sizes(plan, len(data))
    if 0 in sizes:
        return data[:sum(sizes[:sizes.index(0)])]
    return data


# ---------------------------------------------------------------------------------------------------
# case construction

class Cases:
    def __init__(self):
        self.enc = []      # (line, meta)
        self.dec = []      # (line, meta)
        self.new = []

    def add_enc(self, fl, op, mask, key, payload, tag, length=None):
        flags = (fl << 1) | int(mask)
        n = len(payload) if length is None else length
        line = 'c10_enc %d %d %d %s %s' % (flags, op, n, hx(key), hx(payload))
        self.enc.append((line, {'tag': tag, 'fl': fl, 'op': op, 'mask': mask, 'key': key, 'payload': payload,
                                'length': n}))

    def add_dec(self, data, plan, tag, expect=None):
        line = 'c10_dec %s %s' % (hx(data), plan)
        self.dec.append((line, {'tag': tag, 'data': data, 'plan': plan, 'expect': expect}))


def rand_key(rng, kind):
    if kind == 'zero':
        return b'\0\0\0\0'
    if kind == 'one':
        k = bytearray(4)
        k[rng.randrange(4)] = rng.randrange(1, 256)
        return bytes(k)
    return bytes(rng.randrange(256) for _ in range(4))


def rand_plan(rng, total, hdr=14):
    r = rng.random()
    if r < 0.2:
        return '-'
    if r < 0.35:
        return '*1'
    if r < 0.45:
        return '*%d' % rng.choice([2, 3, 5, 7, 13, 64, 1000, 4096, 8192])
    if r < 0.8:
        # a few cuts, biased into the header region
        cuts = sorted(set([rng.randrange(1, max(2, min(total, hdr + 2))) for _ in range(rng.randint(1, 4))] +
                          [rng.randrange(1, max(2, total)) for _ in range(rng.randint(0, 3))]))
        sizes, prev = [], 0
        for c in cuts:
            if c - prev > 0:
                sizes.append(c - prev)
                prev = c
        if sizes and rng.random() < 0.06:
            sizes.insert(rng.randrange(len(sizes) + 1), 0)
        return ','.join(str(s) for s in sizes) if sizes else '-'
    # byte-wise through the header, then bulk
    return ','.join(['1'] * min(total, hdr)) if total else '-'


def frame_bytes_any(rng, fl, op, mask, key, payload, form=None):
    """encode with a chosen (possibly non-minimal) length form"""
    n = len(payload)
    out = bytearray([(fl << 4) | op])
    m = 0x80 if mask else 0
    if form is None:
        form = 0 if n < 126 else (2 if n < 65536 else 8)
    if form == 0:
        out.append(m | n)
    elif form == 2:
        out.append(m | 126)
        out += n.to_bytes(2, 'big')
    else:
        out.append(m | 127)
        out += n.to_bytes(8, 'big')
    if mask:
        out += key + py_xor(key, payload)
    else:
        out += payload
    return bytes(out)


def gen(ctx, cs):
    rng = ctx.rng
    thorough = ctx.tier == 'thorough'
    rb = rng.randbytes if hasattr(rng, 'randbytes') else (lambda n: bytes(rng.getrandbits(8) for _ in range(n)))
    masks = [(False, 'zero'), (True, 'zero'), (True, 'one'), (True, 'rand')]

    # ---- (a) exhaustive header x length classes, encode + round trip ----
    small = [0, 1, 124, 125, 126, 127, 128]
    big = [65534, 65535, 65536, 65537]
    for n in small:
        for fl in range(16):
            for op in OPCODES:
                for mask, kk in masks:
                    cs.add_enc(fl, op, mask, rand_key(rng, kk), rb(n), 'exh-small')
    combos = [(fl, op, mk) for fl in range(16) for op in OPCODES for mk in masks]
    for n in big:
        if thorough:
            sel = combos
        else:
            # every flag combination, opcode and mask variant at least once per length
            sel = [(fl, OPCODES[fl % 6], masks[(fl + n) % 4]) for fl in range(16)] + \
                  [(rng.randrange(16), op, mk) for op in OPCODES for mk in masks]
        for fl, op, (mask, kk) in sel:
            cs.add_enc(fl, op, mask, rand_key(rng, kk), rb(n), 'exh-big')
    # reserved opcodes cannot be built (Opcode is an enum); the hook refuses them: both sides say none
    for op in RESERVED + [16, 255]:
        cs.add_enc(8, op, False, b'\0\0\0\0', b'x', 'enc-reserved')
    # length field different from the payload length (not a well-formed frame value; the encoders must still agree)
    for n, claimed in ((3, 5), (5, 3), (3, 126), (200, 7), (3, 65536), (0, 2 ** 64 - 1), (70000, 125)):
        cs.add_enc(8, 2, bool(n & 1), rand_key(rng, 'rand'), rb(n), 'enc-len-mismatch', length=claimed)

    # ---- (b) all 65 536 two-byte headers, complete and truncated remainder ----
    for h0, h1 in [(a, b) for _rep in range(2 if thorough else 1) for a in range(256) for b in range(256)]:
        if True:
            l7 = h1 & 127
            if l7 == 126:
                n = rng.choice([0, 1, 125, 126, 200, 300]) if rng.random() < 0.9 else rng.randrange(0, 2000)
                ext = n.to_bytes(2, 'big')
            elif l7 == 127:
                n = rng.choice([0, 5, 126, 300]) if rng.random() < 0.95 else 65536
                ext = n.to_bytes(8, 'big')
            else:
                n, ext = l7, b''
            key = rb(4) if h1 & 128 else b''
            full = bytes([h0, h1]) + ext + key + rb(n)
            extra = rb(rng.randrange(0, 4)) if rng.random() < 0.3 else b''
            cs.add_dec(full + extra, rand_plan(rng, len(full)), 'hdr-complete')
            cut = rng.randrange(0, len(full)) if rng.random() < 0.7 else max(0, len(full) - 1)
            cs.add_dec(full[:cut], rand_plan(rng, cut), 'hdr-truncated')

    # ---- (c) every split point of short frames ----
    shorts = []
    for i in range(60 if not thorough else 150):
        fl, op = rng.randrange(16), rng.choice(OPCODES)
        mask = rng.random() < 0.6
        key = rand_key(rng, rng.choice(['zero', 'one', 'rand']))
        form = rng.choice([0, 0, 2, 8])
        n = rng.randrange(0, 7) if form else rng.randrange(0, 15)
        shorts.append(frame_bytes_any(rng, fl, op, mask, key, rb(n), form) + (rb(rng.randrange(0, 3)) if i % 3 == 0 else b''))
    for s in shorts:
        cs.add_dec(s, '-', 'split-none')
        cs.add_dec(s, '*1', 'split-bytewise')
        for k in range(1, len(s)):
            cs.add_dec(s, str(k), 'split-1')
        if len(s) <= 14:
            for a in range(1, len(s)):
                for b in range(a + 1, len(s)):
                    cs.add_dec(s, '%d,%d' % (a, b - a), 'split-2')
        # a read that returns 0 in the middle (std treats it as EOF)
        k = rng.randrange(0, len(s) + 1)
        cs.add_dec(s, ('%d,0' % k) if k else '0', 'split-zero-read')

    # ---- (d) random frames, random plans ----
    nrand = 40000 if thorough else 900 * ctx.scale
    maxlen = (1 << 20) if thorough else 65600
    nbig = 0
    for i in range(nrand):
        r = rng.random()
        if r < 0.55:
            n = rng.randrange(0, 200)
        elif r < 0.75:
            n = rng.choice([124, 125, 126, 127, 128, 255, 256, 257, 1000, 4095, 4096, 8191, 8192, 8193])
        elif r < 0.93:
            n = rng.randrange(200, 20000)
        else:
            if nbig >= (160 if thorough else 14):
                n = rng.randrange(0, 3000)
            else:
                nbig += 1
                n = rng.choice([65534, 65535, 65536, 65537, rng.randrange(65536, maxlen + 1)])
        fl, op = rng.randrange(16), rng.choice(OPCODES)
        mask, kk = rng.choice(masks)
        key = rand_key(rng, kk)
        payload = rb(n)
        cs.add_enc(fl, op, mask, key, payload, 'rand-enc')
        form = None
        if rng.random() < 0.12:
            form = rng.choice([f for f in (2, 8) if f == 8 or n < 65536])
        data = frame_bytes_any(rng, fl, op, mask, key, payload, form)
        t = rng.random()
        if t < 0.55:
            rest = rb(rng.randrange(0, 30)) if rng.random() < 0.4 else b''
            cs.add_dec(data + rest, rand_plan(rng, len(data)), 'rand-complete' if form is None else 'rand-nonminimal')
        elif t < 0.85:
            cut = rng.randrange(0, len(data))
            cs.add_dec(data[:cut], rand_plan(rng, cut), 'rand-truncated')
        else:
            # mutate one header byte (opcode / length class / mask bit change)
            j = rng.randrange(0, min(len(data), 2))
            d2 = bytearray(data)
            d2[j] = rng.randrange(256)
            cs.add_dec(bytes(d2), rand_plan(rng, len(d2)), 'rand-mutant')

    # ---- (e) claimed lengths far beyond what is supplied ----
    huge = [2 ** 31, 2 ** 32, 2 ** 40, 2 ** 62, 2 ** 63 - 1, 2 ** 63, 2 ** 63 + 1, 2 ** 64 - 1, 10 ** 14, 65536, 2 ** 24]
    for n in huge:
        for mask in (False, True):
            for op in (1, 2, 9):
                hdr = bytes([0x80 | op, (0x80 if mask else 0) | 127]) + n.to_bytes(8, 'big') + (rb(4) if mask else b'')
                for supplied in (0, 1, 100):
                    cs.add_dec(hdr + rb(supplied), rng.choice(['-', '*1', '*3']), 'huge-claim')
    for n in (65535, 40000, 126):
        hdr = bytes([0x82, 126]) + n.to_bytes(2, 'big')
        cs.add_dec(hdr + rb(rng.randrange(0, 50)), '-', 'huge-claim')

    # ---- (f) Frame::new and Message::to_frame ----
    for op in OPCODES + RESERVED:
        for n in (0, 1, 125, 126, 65535, 65536):
            cs.new.append(('new', op, rb(n)))
    texts = [b'', b'hello world', 'héllo \U0001F600'.encode(), b'\xff\xfe', b'\xc3', b'\xed\xa0\x80', b'a' * 125,
             b'a' * 126, 'é'.encode() * 63, b'\x80' * 126, b'b' * 65535, b'b' * 65536, b'\xf0\x9f\x98' + b'c' * 70000]
    for t in texts + [rb(rng.randrange(0, 300)) for _ in range(40)]:
        cs.new.append(('msg', 0, t))
        cs.new.append(('msg', 1, t))


def load_corpus(cs):
    d = hv.V + '/corpus/C10'
    n = 0
    if not os.path.isdir(d):
        return 0
    for fn in sorted(os.listdir(d)):
        for line in open(os.path.join(d, fn), encoding='utf-8'):
            line = line.strip()
            if not line or line.startswith('#'):
                continue
            c = json.loads(line)
            if c['kind'] == 'dec':
                cs.add_dec(bytes.fromhex(c['data']), c.get('plan', '-'), 'corpus')
            elif c['kind'] == 'enc':
                cs.add_enc(c['fl'], c['op'], bool(c['mask']), bytes.fromhex(c['key']), bytes.fromhex(c['payload']),
                           'corpus', length=c.get('length'))
            n += 1
    return n



# ---------------------------------------------------------------------------------------------------
# extraction spot-check: a few dozen short cases are evaluated inside Coq (vm_compute) and must give what the extracted
# OCaml model printed

OPNAME = {0: 'Continuation', 1: 'Text', 2: 'Binary', 8: 'Close', 9: 'Ping', 10: 'Pong'}


def coq_list(b):
    return '[' + '; '.join(str(x) for x in b) + ']'


def coq_bool(x):
    return 'true' if x else 'false'


def coq_frame(fin, rsv, op, mask, length, key, payload):
    return '(mkFrame %s %s %s %s %s %s %d (mkKey %d %d %d %d) %s)' % (
        coq_bool(fin), coq_bool(rsv[0] == '1'), coq_bool(rsv[1] == '1'), coq_bool(rsv[2] == '1'), OPNAME[op],
        coq_bool(mask), length, key[0], key[1], key[2], key[3], coq_list(payload))


def coq_chunks(data, plan):
    out, pos = [], 0
    for n in py_chunk_sizes(plan, len(data)):
        out.append(data[pos:pos + n])
        pos += n
    return out


def coq_expect_dec(model_line, data, plan):
    """Coq term for what the extracted model printed for `c10_dec data plan` (None if not representable)"""
    main, _ = split_tail(model_line, 'alloc')
    if main == 'err:read':
        return 'Err 1'
    if main == 'err:opcode':
        return 'Err 2'
    if not main.startswith('ok '):
        return None
    kv = dict(x.split('=', 1) for x in main[3:].split(' '))
    if not kv['payload'].startswith('h'):
        return None
    consumed = int(kv['consumed'])
    left = []
    for c in coq_chunks(data, plan):
        if consumed > 0 and consumed >= len(c):
            consumed -= len(c)
            continue
        if consumed > 0:
            left.append(c[consumed:])
            consumed = 0
        else:
            left.append(c)
    fr = coq_frame(kv['fin'] == '1', kv['rsv'], int(kv['op']), kv['mask'] == '1', int(kv['len']), bytes.fromhex(kv['key']),
                   bytes.fromhex(kv['payload'][1:]))
    return 'Ok (%s, [%s])' % (fr, '; '.join(coq_list(c) for c in left))


def coq_crosscheck(ctx, dec_cases, enc_cases):
    """dec_cases: [(data, plan, model_line)], enc_cases: [(meta, model_line)]"""
    goals = []
    for data, plan, ml in dec_cases:
        e = coq_expect_dec(ml, data, plan)
        if e is None:
            continue
        cs = '[' + '; '.join(coq_list(c) for c in coq_chunks(data, plan)) + ']'
        goals.append(('decode %s = %s' % (cs, e), {'kind': 'dec', 'data': data.hex(), 'plan': plan}))
    for meta, ml in enc_cases:
        if not ml.startswith('some:h') or meta['op'] not in OPNAME:
            continue
        fl = meta['fl']
        fr = coq_frame(fl >> 3, '%d%d%d' % ((fl >> 2) & 1, (fl >> 1) & 1, fl & 1), meta['op'], meta['mask'], meta['length'],
                       meta['key'], meta['payload'])
        goals.append(('encode %s = %s' % (fr, coq_list(bytes.fromhex(ml[6:]))),
                      {'kind': 'enc', 'fl': fl, 'op': meta['op'], 'mask': int(meta['mask']), 'key': meta['key'].hex(),
                       'payload': meta['payload'].hex(), 'length': meta['length']}))
    if not goals:
        return
    wd = hv.V + '/work'
    os.makedirs(wd, exist_ok=True)
    src = ['From Hv Require Import Prelude Stream Frame.', 'Open Scope N_scope.']
    for k, (g, _) in enumerate(goals):
        src.append('Goal %s. Proof. vm_compute. reflexivity. Qed. (* case %d *)' % (g, k))
    open(wd + '/c10_cases.v', 'w').write('\n'.join(src) + '\n')
    rc, out = hv.sh('timeout 300 coqc -Q %s/theories Hv %s/c10_cases.v' % (hv.COQ, wd), timeout=400)
    ctx.count('coq-vm-crosscheck', len(goals))
    ctx.extra['extraction_crosscheck'] = {'cases': len(goals), 'ok': rc == 0,
                                          'cmd': 'coqc -Q coq/theories Hv work/c10_cases.v (vm_compute of decode/encode inside Coq '
                                                 '= output of the extracted OCaml model)'}
    if rc != 0:
        import re
        mline = re.search(r'line (\d+)', out)
        k = int(mline.group(1)) - 3 if mline else 0
        case = goals[k][1] if 0 <= k < len(goals) else {'kind': 'crosscheck'}
        ctx.report(case, 'coqc: ' + out[-300:], 'vm_compute inside Coq = extracted model', cls='extraction-crosscheck',
                   failing_input=False, what='extracted OCaml model and vm_compute inside Coq disagree: ' + goals[k][0][:200])


# ---------------------------------------------------------------------------------------------------

def balanced(binary, lines, shards=16):
    """hv.run_lines cuts the list into contiguous shards; long lines (64 KiB - 1 MiB frames) come in runs, so deal the
    lines out by decreasing size first and undo the permutation afterwards"""
    n = len(lines)
    if n < 400:
        return hv.run_lines(binary, lines, shards=shards)
    order = sorted(range(n), key=lambda i: -len(lines[i]))
    per = (n + shards - 1) // shards
    groups = [[] for _ in range(shards)]
    k = 0
    for i in order:
        while len(groups[k % shards]) >= per:
            k += 1
        groups[k % shards].append(i)
        k += 1
    perm = [i for g in groups for i in g]
    out = hv.run_lines(binary, [lines[i] for i in perm], shards=shards)
    res = [None] * n
    for i, o in zip(perm, out):
        res[i] = o
    return res


def model_run(lines):
    return balanced(hv.MODEL_BIN, lines)


def limited_binary(kb):
    return "/bin/sh -c 'ulimit -v %d; exec %s'" % (kb, hv.IMPL_BIN)


def confirm_dead(binary, lines, out, cap=400):
    """The harness buffers its output, so when it dies the lines answered but not yet flushed are lost and hv.run_lines
    blames the first of them. Re-run every line reported dead on its own; only the ones that die alone stay dead."""
    dead = [i for i, o in enumerate(out) if o in ('DIED', 'TIMEOUT')]
    for i in dead[:cap]:
        r = hv.run_lines(binary, [lines[i]], shards=1)
        out[i] = r[0] if r else 'DIED'
    return out


def impl_limited(lines):
    """implementation runner under an address-space limit"""
    binary = limited_binary(AS_LIMIT_KB)
    return confirm_dead(binary, lines, balanced(binary, lines))


_tight = {}


def tight_limit_kb():
    """smallest address-space limit (MiB steps) under which the harness answers a trivial request, plus 2 MiB"""
    if 'kb' not in _tight:
        probe = 'c10_dec h810548656c6c6f 1,3'
        for mb in (3, 4, 5, 6, 8, 10, 12, 16, 24, 32, 48, 64):
            r = hv.run_lines(limited_binary(mb * 1024), [probe, probe], shards=1)
            if len(r) == 2 and r[0].startswith('ok ') and r[1].startswith('ok '):
                _tight['kb'] = (mb + 2) * 1024
                break
        else:
            _tight['kb'] = 96 * 1024
    return _tight['kb']


def impl_tight(lines):
    binary = limited_binary(tight_limit_kb())
    return confirm_dead(binary, lines, hv.run_lines(binary, lines, shards=4))


def split_tail(s, key):
    """'... key=123' -> ('...', 123) ; (s, None) when absent"""
    i = s.rfind(' ' + key + '=')
    if i < 0:
        return s, None
    return s[:i], int(s[i + len(key) + 2:])


def run(ctx):
    cs = Cases()
    if ctx.replay:
        c = ctx.replay['case']
        if c.get('kind') == 'enc':
            cs.add_enc(c['fl'], c['op'], bool(c['mask']), bytes.fromhex(c['key']), bytes.fromhex(c['payload']), 'replay',
                       length=c.get('length'))
        elif c.get('kind') == 'dec':
            cs.add_dec(bytes.fromhex(c['data']), c['plan'], 'replay')
        elif c.get('kind') in ('new', 'msg'):
            cs.new.append((c['kind'], c['op'], bytes.fromhex(c['payload'])))
    else:
        ncorp = load_corpus(cs)
        ctx.count('corpus', ncorp)
        gen(ctx, cs)
        ctx.exhaustive = True

    # ---------------- encode ----------------
    lines = [l for l, _ in cs.enc]
    m = model_run(lines)
    enc_model = m
    im = impl_limited(lines)
    ctx.evaluations += len(lines)
    roundtrip = []
    for (line, meta), a, b in zip(cs.enc, m, im):
        ctx.count('enc:' + meta['tag'])
        case = {'kind': 'enc', 'fl': meta['fl'], 'op': meta['op'], 'mask': int(meta['mask']), 'key': meta['key'].hex(),
                'payload': meta['payload'].hex(), 'length': meta['length']}
        wellformed = meta['length'] == len(meta['payload']) and meta['op'] in OPCODES
        exp = None
        if meta['op'] not in OPCODES:
            exp = 'none'
        elif wellformed:
            pe = py_encode(meta['fl'], meta['op'], meta['mask'], meta['key'], meta['payload'])
            exp = 'some:' + digest(pe)
        ctx.count('enc-model:' + a.split(':')[0])
        ctx.count('enc-impl:' + b.split(':')[0])
        if exp is not None and a != exp:
            ctx.report(case, 'model=' + a[:200], 'oracle=' + exp[:200], cls='model-vs-oracle', failing_input=False,
                       what='Coq model of the frame encoder disagrees with the independent RFC 6455 encoder')
        if b != a:
            bad = exp is not None and b != exp
            ctx.report(case, 'impl=' + b[:200], ('rfc=' + exp[:200]) if exp else ('model=' + a[:200]), cls='enc-mismatch',
                       failing_input=bad,
                       what='serialising Frame{fin/rsv=%d, opcode=%d, mask=%s, key=%s, %d payload bytes} gives %s; RFC 6455 '
                            'section 5.2 layout is %s' % (meta['fl'], meta['op'], meta['mask'], meta['key'].hex(),
                                                          len(meta['payload']), b[:120], (exp or a)[:120]))
        if wellformed:
            if meta['mask'] and meta['key'] != b'\0\0\0\0' and meta['payload']:
                ctx.mark_nontrivial(('enc', meta['fl'], meta['op'], meta['key'], len(meta['payload'])))
            elif len(meta['payload']) >= 126:
                ctx.mark_nontrivial(('enc', meta['fl'], meta['op'], len(meta['payload'])))
            # round trip: decode what the RFC encoder produced (== impl output whenever no mismatch was reported)
            if meta['tag'] in ('exh-small', 'exh-big', 'corpus', 'replay'):
                total = len(pe)
                plans = ['-'] if meta['tag'] == 'exh-big' and ctx.tier != 'thorough' else ['-', rand_plan(ctx.rng, total)]
                if len(meta['payload']) <= 128:
                    plans.append('*1')
                elif ctx.rng.random() < 0.08:
                    plans.append('*1')
                key = meta['key'] if meta['mask'] else b'\0\0\0\0'
                want = {'fin': meta['fl'] >> 3, 'rsv': '%d%d%d' % ((meta['fl'] >> 2) & 1, (meta['fl'] >> 1) & 1, meta['fl'] & 1),
                        'op': meta['op'], 'mask': int(meta['mask']), 'len': len(meta['payload']), 'key': key.hex(),
                        'payload': meta['payload']}
                for p in plans:
                    roundtrip.append(('c10_dec %s %s' % (hx(pe), p), {'tag': 'roundtrip', 'data': pe, 'plan': p,
                                                                         'expect': show_ok(want, total)}))

    # ---------------- decode ----------------
    alldec = cs.dec + roundtrip
    lines = [l for l, _ in alldec]
    m = model_run(lines)
    im = impl_limited(lines)
    ctx.evaluations += len(lines)
    # model's flat reference parser on the concatenation, on the enumerated header stream (proved equal; checks extraction).
    # parse_spec indexes the key with unary naturals (quadratic): short inputs only
    flat_idx = [i for i, (_, meta) in enumerate(alldec) if meta['tag'].startswith(('hdr-', 'split-', 'corpus', 'replay'))
                and len(meta['data']) <= 1500]
    flat = model_run(['c10_spec ' + hx(effective(alldec[i][1]['data'], alldec[i][1]['plan'])) for i in flat_idx])
    flat_of = dict(zip(flat_idx, flat))
    sampled = set()
    want_samples = {('roundtrip', 'ok'), ('hdr-complete', 'ok'), ('hdr-truncated', 'err:read'), ('huge-claim', 'err:read'),
                    ('split-2', 'ok'), ('rand-nonminimal', 'ok'), ('hdr-complete', 'err:opcode'), ('split-zero-read', 'err:read')}
    for i, ((line, meta), a, b) in enumerate(zip(alldec, m, im)):
        tag = meta['tag']
        data, plan = meta['data'], meta['plan']
        ctx.count('dec:' + tag)
        case = {'kind': 'dec', 'data': data.hex() if len(data) <= 4096 else data.hex(), 'plan': plan}
        a_main, alloc = split_tail(a, 'alloc')
        b_main, cap = split_tail(b, 'cap')
        sizes = py_chunk_sizes(plan, len(data))
        # independent oracle on the concatenation of what the reader delivers before its first 0-byte read
        eff = effective(data, plan)
        o = py_decode(eff)
        exp = show_ok(o[1], o[2]) if o[0] == 'ok' else o[0]
        if 0 in sizes:
            ctx.count('dec-plan-with-zero-read')
        if meta.get('expect') and 0 not in sizes and exp != meta['expect']:
            ctx.report(case, 'oracle=' + exp[:200], 'expected=' + meta['expect'][:200], cls='oracle-selfcheck',
                       failing_input=False, what='python oracle does not round-trip its own encoding')
        a_cls = a_main.split(' ')[0]
        b_core, b_consumed = (b_main, None)
        if b_main.startswith('err:'):
            b_core, b_consumed = split_tail(b_main, 'consumed')
        b_cls = b_core.split(' ')[0]
        ctx.count('dec-model:' + a_cls)
        ctx.count('dec-impl:' + b_cls)
        if a_main != exp:
            ctx.report(case, 'model=' + a_main[:300], 'oracle=' + exp[:300], cls='model-vs-oracle', failing_input=False,
                       what='Coq model of the frame decoder disagrees with the independent RFC 6455 decoder')
        if i in flat_of and flat_of[i] != a_main:
            ctx.report(case, 'chunked=' + a_main[:300], 'flat=' + flat_of[i][:300], cls='model-chunked-vs-flat',
                       failing_input=False, what='extracted decode and extracted parse_spec disagree (theorem says equal)')
        if b_core != a_main:
            ref = exp
            bad = b_core != ref
            if b_cls in ('DIED', 'TIMEOUT', 'PANIC'):
                what = ('decoding %d supplied bytes (header %s, read plan %s) %s under a %d MiB address-space limit; '
                        'expected %s' % (len(data), data[:14].hex(), plan,
                                         {'DIED': 'kills the process', 'TIMEOUT': 'does not return',
                                          'PANIC': 'panics'}[b_cls], AS_LIMIT_KB // 1024, ref[:80]))
            else:
                what = 'decoding %s… (%d bytes, read plan %s) gives %s; RFC 6455 says %s' % (
                    data[:20].hex(), len(data), plan[:40], b_core[:160], ref[:160])
            ctx.report(case, 'impl=' + b_core[:300], 'spec=' + ref[:300], cls='dec-mismatch', failing_input=bad, what=what)
        else:
            # agreed: secondary observables
            if b_cls == 'ok':
                if cap is None or alloc is None or cap > alloc:
                    ctx.report(case, 'impl payload capacity=%s' % cap, 'model bound=%s' % alloc, cls='alloc-bound',
                               failing_input=True,
                               what='payload buffer capacity %s exceeds 2*len+32 = %s for %d supplied bytes' % (cap, alloc, len(data)))
                if alloc is not None and alloc > 2 * len(data) + 32:
                    ctx.report(case, 'model alloc=%s' % alloc, '<= 2*%d+32' % len(data), cls='model-alloc', failing_input=False,
                               what='model allocation meter exceeds the proved bound')
            elif b_cls == 'err:opcode':
                if b_consumed != 2:
                    ctx.report(case, 'consumed=%s' % b_consumed, 'consumed=2', cls='dec-consumed', failing_input=True,
                               what='reserved opcode rejected after reading %s bytes instead of the 2 header bytes' % b_consumed)
            elif b_cls == 'err:read':
                if b_consumed != len(eff):
                    ctx.report(case, 'consumed=%s' % b_consumed, 'consumed=%d' % len(eff), cls='dec-consumed', failing_input=True,
                               what='read error reported before the input was exhausted')
        if a_cls == 'ok':
            if len(sizes) > 1 and sizes[0] < 14 or ' mask=1 ' in a_main and 'key=00000000' not in a_main:
                ctx.mark_nontrivial(('dec', a_main[:120], plan[:40]))
        elif tag in ('hdr-truncated', 'rand-truncated', 'huge-claim') and a_cls == 'err:read' and len(data) >= 2:
            ctx.mark_nontrivial(('trunc', data[:14], len(data), plan[:20]))
        skey = (tag, a_cls)
        if skey in want_samples and skey not in sampled and (tag != 'roundtrip' or ' mask=1 ' in a_main and 'key=00000000' not in a_main):
            sampled.add(skey)
            ctx.sample({'stream': tag, 'bytes': data[:24].hex() + ('…' if len(data) > 24 else ''), 'n': len(data),
                        'plan': plan[:40], 'model': a_main[:150], 'impl': b_core[:150]})

    # ---------------- extraction spot-check inside Coq ----------------
    seen, dsel = {}, []
    for (line, meta), a in zip(alldec, m):
        key = (meta['tag'], a.split(' ')[0])
        if len(meta['data']) <= 24 and seen.get(key, 0) < 3:
            seen[key] = seen.get(key, 0) + 1
            dsel.append((meta['data'], meta['plan'], a))
    esel = [(meta, a) for (line, meta), a in zip(cs.enc, enc_model) if len(meta['payload']) <= 12][:20]
    coq_crosscheck(ctx, dsel[:60], esel)

    # ---------------- short inputs again, under a limit a few MiB above what the harness itself needs ----------------
    # (a buffer sized from the claimed length instead of the bytes supplied kills the process here even if it is capped
    #  well below the general limit)
    small = [(line, meta, a) for (line, meta), a in zip(alldec, m)
             if len(meta['data']) <= 256 and meta['tag'] in ('huge-claim', 'corpus', 'replay', 'rand-mutant', 'split-zero-read')]
    if small:
        kb = tight_limit_kb()
        ctx.extra['tight_address_space_limit_kib'] = kb
        it = impl_tight([l for l, _, _ in small])
        ctx.evaluations += len(small)
        for (line, meta, a), b in zip(small, it):
            ctx.count('dec-tight:' + meta['tag'])
            a_main, _ = split_tail(a, 'alloc')
            b_main, _ = split_tail(b, 'cap')
            if b_main.startswith('err:'):
                b_main, _ = split_tail(b_main, 'consumed')
            if b_main != a_main:
                data = meta['data']
                ctx.report({'kind': 'dec', 'data': data.hex(), 'plan': meta['plan'], 'tight': True}, 'impl=' + b_main[:200],
                           'spec=' + a_main[:200], cls='alloc-claimed', failing_input=True,
                           what='decoding %d supplied bytes (%s, read plan %s) under a %d KiB address-space limit (the harness '
                                'itself needs %d KiB less): %s; expected %s — memory is requested from the claimed length, '
                                'not from the bytes supplied' % (len(data), data[:14].hex(), meta['plan'], kb, 2048,
                                                                  b_main[:60], a_main[:80]))

    # ---------------- Frame::new / Message::to_frame ----------------
    lines_m, lines_i, metas = [], [], []
    for kind, op, payload in cs.new:
        if kind == 'new':
            l = 'c10_new %d %s' % (op, hx(payload))
            lines_m.append(l)
            lines_i.append(l)
        else:
            try:
                payload.decode('utf-8')
                is_text = op == 0
            except UnicodeDecodeError:
                is_text = False
            lines_m.append('c10_msg %d %s' % (int(is_text), hx(payload)))
            lines_i.append('c10_msg %d %s' % (op, hx(payload)))
        metas.append((kind, op, payload))
    m = model_run(lines_m)
    im = impl_limited(lines_i)
    ctx.evaluations += len(lines_m)
    for (kind, op, payload), a, b, lm in zip(metas, m, im, lines_m):
        ctx.count('new:' + kind)
        case = {'kind': kind, 'op': op, 'payload': payload.hex()}
        if kind == 'new':
            exp = ('some:' + digest(py_encode(8, op, False, b'', payload))) if op in OPCODES else 'none'
            got = b
        else:
            is_text = lm.split(' ')[1] == '1'
            exp = digest(py_encode(8, 1 if is_text else 2, False, b'', payload))
            a = 'text=%d %s' % (int(is_text), a)
            exp = 'text=%d %s' % (int(is_text), exp)
            got = b
        if kind == 'new' and a != exp or kind == 'msg' and a != exp:
            ctx.report(case, 'model=' + a[:200], 'oracle=' + exp[:200], cls='model-vs-oracle', failing_input=False,
                       what='Coq model of Frame::new/Message::to_frame disagrees with the independent encoder')
        if got != a:
            ctx.report(case, 'impl=' + got[:200], 'rfc=' + exp[:200], cls='new-mismatch', failing_input=(got != exp),
                       what='%s of %d payload bytes (%s) serialises to %s; a single unmasked FIN frame is %s' % (
                           'Frame::new(opcode %d)' % op if kind == 'new' else
                           ('Message::new_binary' if op == 1 else 'Message::new') + '(..).to_frame()',
                           len(payload), payload[:12].hex(), got[:100], exp[:100]))
        if len(payload) >= 126:
            ctx.mark_nontrivial((kind, op, len(payload)))
