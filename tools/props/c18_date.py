"""C18 (HTTP-date part) — model of date.rs (proved equal to day-by-day counting for every day from 1970-01-01, and to emit the
RFC 7231 IMF-fixdate) vs humphrey::http::date::DateTime, with CPython's datetime / email.utils.formatdate as independent
oracle and the extracted day-counting spec on a sorted subsample."""
import datetime
import email.utils
import os
from hv import hx, unhx, V

RULE = ('dates: corpus; quick = 00:00:00 and 23:59:59 of every ~7th day 1970-01-01..9999-12-31 (random steps 4..10 so every '
        'weekday occurs), all month ends / leap days / year ends of 500 random years, 20000 random timestamps, every second of '
        '3 days (2000-02-29, 1970-01-01, one random day); thorough = 00:00:00 and 23:59:59 of EVERY day of the range, every '
        'second of 12 days, 500000 random timestamps; the extracted next_day counting spec is run on a sorted subsample '
        '(thorough: every day); out-of-range / negative timestamps only as model-vs-implementation correspondence '
        '(outside the property); non-trivial = month end, leap day, year end, century year or time-of-day carry')
ASSUMPTIONS = ['the property quantifies over 0 <= t < 253402300800 (1970-01-01 .. 9999-12-31 23:59:59 UTC); outside it the '
               'formatter is not IMF-fixdate (5-digit / unpadded years, u16 wrap, subtraction overflow panic near i64::MIN) — '
               'checked only as model/implementation correspondence',
               'format! with {:02} on u8 / {} on u16 and on &str behaves as modelled (Rust std, below the model boundary, '
               'covered by the correspondence run)']

END = 253402300800
NDAYS = END // 86400          # 2932897
DAYN = ['Sun', 'Mon', 'Tue', 'Wed', 'Thu', 'Fri', 'Sat']
MONN = ['Jan', 'Feb', 'Mar', 'Apr', 'May', 'Jun', 'Jul', 'Aug', 'Sep', 'Oct', 'Nov', 'Dec']
ORD0 = datetime.date(1970, 1, 1).toordinal()


def oracle(t):
    """CPython calendar: fields as DateTime has them + the IMF-fixdate string."""
    n, rs = divmod(t, 86400)
    d = datetime.date.fromordinal(ORD0 + n)
    wd = (d.weekday() + 1) % 7
    h, mi, s = rs // 3600, rs // 60 % 60, rs % 60
    txt = '%s, %02d %s %04d %02d:%02d:%02d GMT' % (DAYN[wd], d.day, MONN[d.month - 1], d.year, h, mi, s)
    return '%d %d %d %d %d %d %d %d %s' % (t, d.year, d.month - 1, d.day, wd, h, mi, s, hx(txt)), d


def interesting(d, rs, tag):
    """calendar boundary (month/year end, Feb 28/29, century year), or a time-of-day carry in the random streams"""
    last = (d.year == 9999 and d.month == 12 and d.day == 31) or (d + datetime.timedelta(days=1)).month != d.month
    return (last or d.day == 1 or (d.month == 2 and d.day >= 28) or d.year % 100 == 0
            or (tag.startswith('random') and (rs % 60 == 59 or rs % 60 == 0)))


def day_of(y, m, d):
    return datetime.date(y, m, d).toordinal() - ORD0


def gen(ctx):
    thorough = ctx.tier == 'thorough'
    rng = ctx.rng
    p = V + '/corpus/C18/date.txt'
    if os.path.exists(p):
        for line in open(p):
            line = line.strip()
            if line and not line.startswith('#'):
                yield int(line), 'corpus'
    if thorough:
        for n in range(NDAYS):
            yield n * 86400, 'day-first'
            yield n * 86400 + 86399, 'day-last'
    else:
        n = rng.randrange(7)
        while n < NDAYS:
            yield n * 86400, 'day-first'
            yield n * 86400 + 86399, 'day-last'
            n += rng.randint(4, 10)
        yield (NDAYS - 1) * 86400, 'day-first'
        yield (NDAYS - 1) * 86400 + 86399, 'day-last'
    # month ends, leap days, year ends of random years (plus the century years)
    years = set(rng.randrange(1970, 10000) for _ in range(3000 if thorough else 500))
    years |= {1970, 1972, 2000, 2100, 2400, 9999, 9996, 9900, 9600}
    for y in sorted(years):
        for m in range(1, 13):
            first = day_of(y, m, 1)
            for n in (first - 1, first):
                if 0 <= n < NDAYS:
                    yield n * 86400 + rng.randrange(86400), 'month-boundary'
        n = day_of(y, 3, 1) - 1                      # Feb 28 or 29
        yield n * 86400 + rng.randrange(86400), 'feb-end'
        yield (n - 1) * 86400 + rng.randrange(86400), 'feb-end'
    for _ in range(500000 if thorough else 20000):
        r = rng.random()
        if r < 0.6:
            yield rng.randrange(END), 'random'
        elif r < 0.8:
            yield rng.randrange(0, 4102444800), 'random-1970-2100'
        else:
            # near a minute/hour/day carry
            base = rng.randrange(NDAYS) * 86400 + rng.choice([0, 59, 60, 3599, 3600, 43199, 43200, 86340, 86399])
            yield min(END - 1, base + rng.randint(0, 1)), 'random-carry'
    # every second of selected days
    sel = [day_of(2000, 2, 29), 0, rng.randrange(NDAYS)]
    if thorough:
        sel += [NDAYS - 1, day_of(2100, 2, 28), day_of(1999, 12, 31), day_of(2038, 1, 19)] + [rng.randrange(NDAYS) for _ in range(5)]
    for n in sel:
        for s in range(86400):
            yield n * 86400 + s, 'every-second'


def out_of_range(ctx):
    rng = ctx.rng
    ts = [-1, -86400, -86401, -62167219200, -62167219201, END, END + 1, 2005949145599, 2005949145600,
          9223372036854775807, -9223372036854775808, -9223372035902907008, -9223372035902907009,
          -84337067, -28504100829]
    ts += [-rng.randrange(1, 62167219200) for _ in range(300)]
    ts += [rng.randrange(END, 2005949145600) for _ in range(300)]
    ts += [rng.randrange(-2 ** 63, 2 ** 63) for _ in range(300)]
    return ts


def tables_in_sync(ctx):
    """The generated table file must be exactly what the generator produces from the Rust source now (a generator that can
    no longer find its constant, or a stale file, would silently decouple the proofs from the code)."""
    import importlib
    import hv
    try:
        outs = importlib.import_module('tables.date').generate(hv.REPO)
        for name, content in outs.items():
            path = hv.COQ + '/theories/' + name
            if not os.path.exists(path) or open(path).read() != content:
                raise RuntimeError(name + ' on disk differs from what the generator produces')
    except Exception as e:  # noqa: BLE001
        ctx.report({'part': 'date', 'tables': 'tools/tables/date.py'}, repr(e), 'tables regenerate from the Rust source',
                   cls='tables-out-of-sync', failing_input=False,
                   what='table generator for date failed or its output is stale: the theorems no longer speak about the '
                        'constants in the source')


def run(ctx):
    import time
    t0 = time.time()
    _run(ctx)
    ctx.extra.setdefault('part_wall_s', {})['c18_date'] = round(time.time() - t0, 1)


BATCH = 400000


def _run(ctx):
    tables_in_sync(ctx)
    import itertools
    state = {'nformat': 0, 'first': [], 'last': [], 'spec': {}}
    if ctx.replay:
        c = ctx.replay.get('case', {})
        if c.get('part') != 'date':
            return
        check_batch(ctx, [(int(c['t']), 'replay')], state, 1)
        return
    if ctx.tier == 'thorough':
        ctx.exhaustive = True
        ctx.extra['date_exhaustive_domains'] = ['first and last second of every day 1970-01-01..9999-12-31']
    it = gen(ctx)
    spec_step = 1 if ctx.tier == 'thorough' else 17
    while True:
        cases = list(itertools.islice(it, BATCH))
        if not cases:
            break
        check_batch(ctx, cases, state, spec_step)
    run_spec(ctx, state)
    # outside the property's range: correspondence only
    ts = out_of_range(ctx)
    lines = ['date %d' % t for t in ts]
    m2, i2 = ctx.both(lines)
    for t, a, b in zip(ts, m2, i2):
        ctx.count('date:out-of-range:' + ('panic' if b == 'PANIC' else 'value'))
        if a != b:
            ctx.report({'part': 'date', 't': t, 'line': 'date %d' % t, 'out_of_range': True}, 'impl=' + b, 'model=' + a,
                       cls='date-model-mismatch-out-of-range', failing_input=False,
                       what='model and implementation differ on a timestamp outside 1970..9999 (not part of the property)')
    ctx.notes.append('date, outside the property (observed, model agrees): t < 0 gives proleptic dates (year < 1000 printed '
                     'unpadded), t >= 253402300800 gives 5-digit years, year >= 65536 wraps in `as u16`, '
                     't < i64::MIN + 951868800 panics in a debug build (subtraction overflow; theorem '
                     'C18_date_no_panic_except_subtraction_overflow shows it is the only panic site)')
    for t, tag in state['first'] + state['last']:
        ctx.sample({'part': 'date', 't': t, 'stream': tag, 'expected': unhx(oracle(t)[0].split(' ')[-1]).decode()
                    if 0 <= t < END else None})


def check_batch(ctx, cases, state, spec_step):
    if not state['first']:
        state['first'] = cases[:2]
    state['last'] = cases[-2:]
    lines = ['date %d' % t for t, _ in cases]
    m, im = ctx.both(lines)
    cnt = {}
    for (t, tag), a, b in zip(cases, m, im):
        cnt[tag] = cnt.get(tag, 0) + 1
        if not (0 <= t < END):
            continue
        want, d = oracle(t)
        if interesting(d, t % 86400, tag):
            ctx.mark_nontrivial(('date', t))
        k = (d.weekday(), d.month)
        cnt[k] = cnt.get(k, 0) + 1
        if b == want and a == want and not (t % 97 == 0 or tag == 'corpus'):
            continue
        case = {'part': 'date', 't': t, 'line': 'date %d' % t}
        if state['nformat'] < 3000 and (t % 97 == 0 or tag == 'corpus'):
            # second, slower, library oracle for the string
            state['nformat'] += 1
            lib = email.utils.formatdate(t, usegmt=True)
            if hx(lib) != want.split(' ')[-1]:
                ctx.report(case, 'formatdate=' + lib, 'reference=' + unhx(want.split(' ')[-1]).decode(), cls='oracle-vs-oracle',
                           failing_input=False, what='email.utils.formatdate and the datetime-based reference disagree')
        if b == want and a != want:
            ctx.report(case, 'model=' + a, 'oracle=' + want, cls='model-vs-oracle', failing_input=False,
                       what='Coq model of DateTime::from/to_string disagrees with CPython datetime')
        if b != want:
            shown = b
            if b.split(' ')[-1].startswith('h'):
                shown = ' '.join(b.split(' ')[:-1]) + ' "' + unhx(b.split(' ')[-1]).decode('utf-8', 'replace') + '"'
            ctx.report(case, 'impl=' + shown + ' model=' + a, 'spec=' + want, cls='date-wrong', failing_input=True,
                       what='DateTime::from(%d) gives %s; correct is %s' % (
                           t, shown, unhx(want.split(' ')[-1]).decode()))
    for k, v in cnt.items():
        if isinstance(k, tuple):
            ctx.count('date:weekday:%s' % DAYN[(k[0] + 1) % 7], v)
            ctx.count('date:month:%s' % MONN[k[1] - 1], v)
        else:
            ctx.count('date:' + k, v)
    # the extracted day-counting spec (civil = iterate next_day), compared with the implementation:
    # thorough = every case of the batch (batches are contiguous in time, so the cached walk stays short);
    # quick = every 17th case, collected and run once at the end (one walk per shard)
    k = 0
    for (t, _), b in zip(cases, im):
        if 0 <= t < END:
            k += 1
            if k % spec_step == 0:
                state['spec'][t] = b
    if ctx.tier == 'thorough' or ctx.replay:
        run_spec(ctx, state)


def run_spec(ctx, state):
    byt = state['spec']
    state['spec'] = {}
    sub = sorted(byt)
    if not sub:
        return
    sm = ctx.model(['date_spec %d' % t for t in sub])
    ctx.evaluations += len(sub)
    ctx.count('date:counting-spec', len(sub))
    for t, s in zip(sub, sm):
        b = byt[t].split(' ')
        if len(b) != 9:
            continue   # already reported by the field comparison
        got = '%s %d %s %s %s' % (b[1], int(b[2]) + 1, b[3], b[4], b[8])
        if got != s:
            ctx.report({'part': 'date', 't': t, 'line': 'date %d' % t}, 'impl=' + got, 'counting-spec=' + s,
                       cls='date-wrong', failing_input=True,
                       what='DateTime::from(%d) differs from day-by-day counting (extracted next_day) / RFC layout' % t)
