"""C08 — thread pool: trace conformance of the real ThreadPool (real OS threads, hook H3 event history) against the Coq
LTS `Pool.accepts`, plus the property oracle read directly off harness-side task records (side-effect counters, return
of stop()/drop() within 2 s, no live worker thread afterwards, rendezvous of n tasks on n workers)."""
import glob
import itertools
import re

import hv

RULE = ('lifecycle scripts run on real threads: N in 1..4 workers; exhaustive part = every panic subset of k tasks '
        '(quick k<=3 for N<=3, thorough k<=5 for N<=4) x endings {stop+drop, drop without stop, stop then implicit drop, '
        'stop twice} ; rejected calls (execute/stop before start, execute after stop); rendezvous scripts (N tasks must '
        'be running simultaneously on N workers); random scripts up to 8 tasks with random panic sets, caller pauses and '
        'task sleeps/yields derived from the seed, the same seed perturbing the schedule inside the hook; every recorded '
        'history is converted to model labels and fed to the extracted `accepts`; non-trivial = history contains a '
        'panic+recovery, an exit by closed channel, or >= 2 tasks running at once in the model replay')
ASSUMPTIONS = [
    'the theorems cover every interleaving of the model; conformance covers only the interleavings the OS scheduler '
    'produced in this run (perturbed by seeded sleeps/yields at every hook point, in tasks and in the caller) - '
    'schedules that need a preemption at a point without a hook event, or rare timing windows, are left unexplored',
    'one caller thread owns the pool (as in app.rs / async_app.rs); start() is called at most once per pool '
    '(a second start() replaces the channel and is not modelled)',
    'std::sync::Mutex / mpsc semantics (FIFO, recv fails iff queue empty and all Senders dropped) and memory-model '
    'effects below them are trusted, not modelled',
    'the recovery thread never terminates (it owns a Sender of its own channel): after stop()/drop it stays blocked '
    'forever; this thread leak per started pool is outside the statement (worker threads do exit) and is not checked',
    'event order = order of pushes into one global Mutex<Vec>; an event about the receiver mutex or recv is pushed '
    'while that mutex is held, a send (execute/stop/notify) happens while the trace lock is held, DropEnd is pushed '
    'before the Sender is dropped: the recorded order is therefore a linearisation of the real execution',
]
TRUSTED_EXTRA = ['hook H3 (cfg(humphrey_verif) event pushes in thread/pool.rs, thread/recovery.rs; the worker lock/recv '
                 'statement exists twice, once per cfg) and /proc/self/task thread names for the live-worker count']

CALLER_KINDS = ('S', 'E', 'T', 'Db', 'De', 'M4')
_TOK = re.compile(r'^([A-Z][a-z]?)(.*)$')


def split_tok(body):
    """'Rt0' -> ('Rt', '0'); 'M4.3' -> ('M4', '3'); 'Db' -> ('Db', ''); 'S2' -> ('S', '2')."""
    m = _TOK.match(body)
    if not m:
        return body, ''
    kind, arg = m.group(1), m.group(2)
    if kind == 'M':
        a, _, b = arg.partition('.')
        return 'M' + a, b
    return kind, arg


def label_kind(l):
    if l.startswith('R'):
        return 'Rt' if 't' in l else 'R' + l[-1]
    return _TOK.match(l).group(1)


def ops_str(ops):
    out = []
    for o in ops:
        if o[0] == 'E':
            out.append('E%d%s%s' % (o[1], 'p' if o[2] else '', 'r' if o[3] else ''))
        elif o[0] == 'W':
            out.append('W%d' % o[1])
        else:
            out.append(o[0])
    return ','.join(out)


def parse_ops(s):
    ops = []
    for t in s.split(','):
        if not t:
            continue
        if t[0] == 'E':
            digits = ''.join(itertools.takewhile(str.isdigit, t[1:]))
            ops.append(('E', int(digits), 'p' in t, 'r' in t))
        elif t[0] == 'W':
            ops.append(('W', int(t[1:])))
        else:
            ops.append((t[0],))
    return ops


def expected(n, ops):
    """Reference reading of the caller-visible contract: status per op, per-task (runs, ends), rendezvous expectations."""
    ops = list(ops)
    if not any(o[0] == 'D' for o in ops):
        ops.append(('D',))
    st = 'new'
    status, runs, ends, rv = [], {}, {}, {}
    accepted = []
    for o in ops:
        if st == 'gone':
            status.append('nopool' if o[0] not in ('W', 'D') else 'ok')
            continue
        if o[0] == 'S':
            status.append('ok')
            st = 'started'
        elif o[0] == 'E':
            if st == 'started':
                status.append('ok')
                accepted.append(o)
                runs[o[1]] = 1
                ends[o[1]] = 0 if o[2] else 1
            else:
                status.append('panic')
                runs[o[1]] = 0
                ends[o[1]] = 0
        elif o[0] == 'T':
            if st == 'new':
                status.append('panic')
            else:
                status.append('ok')
                st = 'stopped'
        elif o[0] == 'D':
            status.append('ok')
            st = 'gone'
        else:
            status.append('ok')
    nr = sum(1 for o in accepted if o[3])
    for o in accepted:
        if o[3]:
            rv[o[1]] = 1 if nr <= n else None     # None: cannot all run at once, no expectation
    return ops, status, runs, ends, rv, accepted


def parse_result(line):
    d = {}
    for part in line.split(' '):
        if '=' in part:
            k, v = part.split('=', 1)
            d[k] = v
    return d


def to_labels(events, ops):
    """Hook records -> model labels. Returns (labels, problems). Task ids come from the harness marks: the k-th Execute
    event is the k-th accepted submission; a RecvTask by worker w is completed with the id of the next begin-mark
    recorded by the same worker thread."""
    toks = []
    for e in events:
        body, _, w = e.partition('@')
        toks.append((body, int(w) if w != '' else None))
    labels, problems = [], []
    accepted_ids = [o[1] for o in expected(1, ops)[5]]
    nexec = 0
    skip = set()
    for i, (b, w) in enumerate(toks):
        if i in skip:
            continue
        kind, arg = split_tok(b)
        if kind == 'S':
            labels.append('S' + arg)
        elif kind == 'E':
            if nexec >= len(accepted_ids):
                problems.append('more Execute events than accepted submissions')
                labels.append('E999')
            else:
                labels.append('E%d' % accepted_ids[nexec])
            nexec += 1
        elif kind == 'T':
            # a stop() that panicked is followed (caller thread) by the harness mark M4.<op index>
            rejected = False
            for j in range(i + 1, len(toks)):
                kj, aj = split_tok(toks[j][0])
                if kj in CALLER_KINDS and toks[j][1] is None:
                    if kj == 'M4' and int(aj) < len(ops) and ops[int(aj)][0] == 'T':
                        rejected = True
                        skip.add(j)
                    break
            labels.append('Tp' if rejected else 'T')
        elif kind == 'M4':
            opi = int(arg)
            if opi < len(ops) and ops[opi][0] == 'E':
                labels.append('Xe')
            else:
                problems.append('unexpected caller panic mark ' + b)
        elif kind == 'Db' or kind == 'De':
            labels.append(kind)
        elif kind in ('A', 'F', 'N', 'Rs', 'Rc', 'Lp', 'X', 'Rt'):
            wid = int(arg)
            if kind not in ('N',) and w != wid:
                problems.append('event %s recorded by thread %r' % (b, w))
            if kind == 'N' and w != wid:
                problems.append('event %s recorded by thread %r' % (b, w))
            if kind == 'A':
                labels.append('A%d' % wid)
            elif kind == 'F':
                labels.append('F%d' % wid)
            elif kind == 'N':
                labels.append('N%d' % wid)
            elif kind == 'Rs':
                labels.append('R%ds' % wid)
            elif kind == 'Rc':
                labels.append('R%dc' % wid)
            elif kind == 'Lp':
                labels.append('L%d' % wid)
            elif kind == 'Rt':
                tid = None
                for j in range(i + 1, len(toks)):
                    if toks[j][1] == wid:
                        bj = toks[j][0]
                        if bj.startswith('M1.'):
                            tid = int(bj[3:])
                        break
                if tid is None:
                    problems.append('task received by worker %d never began' % wid)
                    tid = 998
                labels.append('R%dt%d' % (wid, tid))
            # X (worker exit) is not a model step: Exited is entered by the Recv that ended the loop
        elif kind == 'V':
            labels.append('V' + arg)
        elif kind == 'M1' or kind == 'M2':
            pass
        elif kind == 'M3':
            if w is None:
                problems.append('panic mark outside a worker')
            else:
                labels.append('P%d' % w)
        else:
            problems.append('unknown event ' + b)
    return labels, problems


def thread_order_checks(events):
    """Per-thread sanity of the hook records themselves (program order of one worker thread)."""
    problems = []
    last = {}
    for e in events:
        body, _, w = e.partition('@')
        if w == '':
            continue
        w = int(w)
        kind = split_tok(body)[0]
        prev = last.get(w)
        if kind == 'X' and prev not in ('Rs', 'Rc', 'Lp'):
            problems.append('worker %d exited after %s' % (w, prev))
        if kind == 'F' and prev != 'M2':
            problems.append('worker %d: Finish not preceded by the task end mark' % w)
        if kind == 'M1' and prev != 'Rt':
            problems.append('worker %d: task began without a RecvTask' % w)
        last[w] = kind
    return problems


def gen_cases(ctx):
    rng = ctx.rng
    thorough = ctx.tier == 'thorough'
    cases = []   # (n, seed, ops, tag)

    def seed():
        return rng.randrange(1, 2 ** 32)

    # corpus
    for f in sorted(glob.glob(hv.V + '/corpus/C08/*.txt')):
        for line in open(f):
            line = line.strip()
            if not line or line.startswith('#'):
                continue
            n, sd, ops = line.split(' ')
            cases.append((int(n), int(sd), parse_ops(ops), 'corpus'))

    endings = {'stop-drop': [('T',), ('D',)], 'drop-only': [('D',)], 'stop-implicit-drop': [('T',)],
               'stop-stop-drop': [('T',), ('T',), ('D',)]}
    # bounded-exhaustive: every panic subset
    maxn, maxk, reps = (4, 5, 2) if thorough else (3, 3, 1)
    for n in range(1, maxn + 1):
        for k in range(0, maxk + 1):
            for subset in itertools.product([False, True], repeat=k):
                for ename, end in endings.items():
                    if ename == 'stop-stop-drop' and (k > 2 or not thorough and n > 2):
                        continue
                    for _ in range(reps):
                        ops = [('S',)]
                        if rng.random() < 0.5:      # let the workers come up (and block in recv) first
                            ops.append(('W', rng.choice([100, 400, 1200])))
                        for i in range(k):
                            ops.append(('E', i, subset[i], False))
                            if rng.random() < 0.2:
                                ops.append(('W', rng.choice([0, 100, 600])))
                        cases.append((n, seed(), ops + end, 'exh-' + ename))
    # rejected calls
    for n in (1, 2):
        cases.append((n, seed(), [('T',), ('E', 0, False, False), ('S',), ('E', 1, False, False), ('T',),
                                  ('E', 2, False, False), ('D',)], 'rejected'))
        cases.append((n, seed(), [('E', 0, True, False), ('D',)], 'rejected'))
        cases.append((n, seed(), [('T',), ('T',), ('D',)], 'rejected'))
        cases.append((n, 0, [('D',)], 'rejected'))
    # rendezvous: n tasks on n workers must all be running at once
    for n in range(1, 5):
        for rep in range(6 if thorough else 2):
            ops = [('S',)] + [('E', i, False, True) for i in range(n)] + [('T',), ('D',)]
            cases.append((n, seed() if rep else 0, ops, 'rendezvous'))
            # with panicking tasks before: the pool must be back to n usable workers
            pre = [('E', i, True, False) for i in range(n)]
            ops = [('S',)] + pre + [('E', n + i, False, True) for i in range(n)] + [('D',)]
            cases.append((n, seed(), ops, 'rendezvous-after-panics'))
    # random scripts
    nrand = 30000 - len(cases) if thorough else max(60, 300 * ctx.scale - len(cases))
    for _ in range(max(0, nrand)):
        n = rng.choice([1, 1, 2, 2, 3, 4])
        k = rng.randint(0, 8)
        pp = rng.choice([0.0, 0.15, 0.4, 0.8])
        ops = [('S',)]
        if rng.random() < 0.5:
            ops.append(('W', rng.choice([100, 400, 1200])))
        for i in range(k):
            ops.append(('E', i, rng.random() < pp, False))
            if rng.random() < 0.25:
                ops.append(('W', rng.choice([0, 50, 300, 1500])))
        r = rng.random()
        if r < 0.4:
            ops += [('T',), ('D',)]
        elif r < 0.75:
            ops += [('D',)]
        elif r < 0.85:
            ops += [('T',), ('W', rng.choice([100, 1000, 3000])), ('D',)]
        elif r < 0.95:
            ops += [('T',)]
        else:
            ops += [('T',), ('E', k, False, False), ('T',), ('D',)]
        cases.append((n, seed() if rng.random() < 0.9 else 0, ops, 'random'))
    return cases


SLOW_FAILURE_BUDGET = 6


def is_slow_failure(o):
    return o in ('DIED', 'TIMEOUT') or 'TIMEOUT' in o.split(' ')[0] or ' left=0 ' not in (' ' + o + ' ')


def run_chunks(lines, per=5, par=8):
    """Runs the histories in small groups, one harness process per group, `par` processes at a time."""
    from concurrent.futures import ThreadPoolExecutor
    chunks = [lines[i:i + per] for i in range(0, len(lines), per)]
    with ThreadPoolExecutor(max_workers=par) as ex:
        outs = list(ex.map(lambda c: hv._run_shard(hv.IMPL_BIN, c, 120), chunks))
    return [o for c in outs for o in c]


def run_impl(ctx, lines):
    """Runs the histories in rounds. A history that ran in a process already disturbed by an earlier failure
    (dirty=1) is run again in a fresh process. Histories on which the caller blocks or workers stay alive cost
    seconds each: once SLOW_FAILURE_BUDGET of them have been seen the remaining rounds are skipped (the verdict is
    already a violation); skipped histories are returned as None."""
    out = [None] * len(lines)
    rounds = [range(0, min(40, len(lines)))] + [range(i, min(i + 400, len(lines))) for i in range(40, len(lines), 400)]
    slow = 0
    for rd in rounds:
        idx = list(rd)
        if not idx:
            continue
        if slow >= SLOW_FAILURE_BUDGET:
            ctx.notes.append('stopped after %d blocking histories; %d histories not run' % (slow, len(lines) - idx[0]))
            break
        res = run_chunks([lines[i] for i in idx])
        for i, o in zip(idx, res):
            out[i] = o
        for _attempt in range(3):
            redo = [i for i in idx if ' dirty=1 ' in (' ' + out[i] + ' ') or out[i] in ('DIED', 'TIMEOUT')]
            if not redo:
                break
            res = run_chunks([lines[i] for i in redo], per=1)
            for i, o in zip(redo, res):
                out[i] = o
        slow += sum(1 for i in idx if is_slow_failure(out[i]))
    return out


def run(ctx):
    if ctx.replay:
        case = ctx.replay['case']
        if case.get('labels'):
            # deterministic part of a replay: the recorded history against the current model
            m = ctx.model(['pool_accepts ' + case['labels']])[0]
            print('recorded history vs model: ' + m)
        n, sd, ops = case['line'].split(' ')[1:4]
        cases = [(int(n), int(sd), parse_ops(ops), 'replay')] * 5
    else:
        cases = gen_cases(ctx)
    lines = ['pool %d %d %s' % (n, sd, ops_str(ops)) for n, sd, ops, _ in cases]
    res = run_impl(ctx, lines)
    parsed = []
    model_lines = []
    ran = [i for i, r in enumerate(res) if r is not None]
    cases = [cases[i] for i in ran]
    lines = [lines[i] for i in ran]
    res = [res[i] for i in ran]
    ctx.evaluations += len(lines)
    for (n, sd, ops, tag), line, r in zip(cases, lines, res):
        d = parse_result(r)
        if 'ev' not in d:
            parsed.append(None)
            model_lines.append('pool_accepts -')
            continue
        events = [] if d['ev'] == '-' else d['ev'].split(',')
        full_ops = expected(n, ops)[0]
        labels, problems = to_labels(events, full_ops)
        problems += thread_order_checks(events)
        parsed.append((d, events, labels, problems))
        model_lines.append('pool_accepts ' + (','.join(labels) if labels else '-'))
    mres = ctx.model(model_lines)
    old_lines, old_idx = [], []
    seen_hist = set()
    for idx, ((n, sd, ops, tag), line, r, p, m) in enumerate(zip(cases, lines, res, parsed, mres)):
        ctx.count('stream:' + tag)
        ctx.count('N=%d' % n)
        case = {'line': line, 'n': n, 'seed': sd, 'ops': ops_str(ops)}
        if p is None:
            ctx.report(case, r, 'a result line', cls='pool-harness-died', failing_input=True,
                       what='harness process died or timed out on this script: ' + r)
            continue
        d, events, labels, problems = p
        case['labels'] = ','.join(labels)
        case['events'] = d['ev']
        full_ops, exp_status, exp_runs, exp_ends, exp_rv, accepted = expected(n, ops)
        ctx.count('tasks=%d' % len(accepted))
        ctx.count('panicking=%d' % sum(1 for o in accepted if o[2]))
        # ---- property oracle, directly on caller/task-side records ----
        status = d['ops'].split(',')
        bad = False
        if 'TIMEOUT' in status or 'DIED' in status:
            k = len(status) - 1
            opname = full_ops[k][0] if k < len(full_ops) else '?'
            stopped = any(o[0] == 'T' for o in full_ops[:k])
            ctx.report(case, 'op %d (%s) did not return within 2 s' % (k, {'D': 'drop', 'T': 'stop', 'S': 'start',
                       'E': 'execute'}.get(opname, opname)), 'returns', failing_input=True,
                       cls='pool-drop-blocks-without-stop' if opname == 'D' and not stopped else 'pool-caller-blocked',
                       what='caller blocked in %s (N=%d, script %s)' % (opname, n, ops_str(ops)))
            bad = True
        elif status != exp_status:
            ctx.report(case, 'op statuses ' + d['ops'], ','.join(exp_status), cls='pool-call-status', failing_input=True,
                       what='start/execute/stop/drop returned or panicked differently from the contract')
            bad = True
        if not bad and d.get('left') != '0':
            ctx.report(case, '%s worker thread(s) still alive 3 s after drop' % d.get('left'), 'all workers exit',
                       cls='pool-worker-alive', failing_input=True,
                       what='worker threads did not exit after the pool was dropped (N=%d, %s)' % (n, ops_str(ops)))
            bad = True
        if not bad:
            runs = [int(x) for x in d['runs'].split(',')] if d['runs'] != '-' else []
            ends = [int(x) for x in d['ends'].split(',')] if d['ends'] != '-' else []
            rvs = [int(x) for x in d['rv'].split(',')] if d['rv'] != '-' else []
            for k in sorted(exp_runs):
                if runs[k] != exp_runs[k] or ends[k] != exp_ends[k]:
                    ctx.report(case, 'task %d: started %d time(s), completed %d time(s)' % (k, runs[k], ends[k]),
                               'started %d, completed %d' % (exp_runs[k], exp_ends[k]), cls='pool-not-exactly-once',
                               failing_input=True,
                               what='task %d of script %s on %d worker(s) did not run exactly once' % (k, ops_str(ops), n))
                    bad = True
                    break
            for k, want in exp_rv.items():
                if want is not None and rvs[k] != 1 and not bad:
                    ctx.report(case, 'rendezvous task %d gave up (only part of the %d tasks ran at the same time)' % (k, len(exp_rv)),
                               'all rendezvous tasks running simultaneously', cls='pool-not-concurrent', failing_input=True,
                               what='%d rendezvous tasks on %d workers were not all running at once' % (len(exp_rv), n))
                    bad = True
        # ---- trace conformance ----
        kinds = set(label_kind(l) for l in labels)
        for kd in kinds:
            ctx.count('label:' + kd)
        if problems:
            ctx.report(case, '; '.join(problems[:3]), 'well-formed history', cls='pool-history-malformed',
                       failing_input=bad, what='hook history is not well-formed: ' + problems[0])
        elif not m.startswith('ok'):
            if not bad or m.startswith('reject'):
                pos = m.split('@')[1] if '@' in m else '?'
                lab = labels[int(pos)] if pos.isdigit() and int(pos) < len(labels) else '?'
                if not bad:
                    ctx.report(case, 'model refuses label #%s (%s) of the observed history' % (pos, lab),
                               'every observed transition is a transition of Pool.step', cls='pool-nonconforming',
                               failing_input=False,
                               what='observed history is not a trace of the model (N=%d, %s): %s' % (n, ops_str(ops), m))
        else:
            ctx.traces += 1
            md = parse_result(m)
            ctx.count('maxrun=%s' % md.get('maxrun'))
            nd = sum(1 for o in accepted if not o[2])
            npn = sum(1 for o in accepted if o[2])
            if not bad and (md.get('sub'), md.get('done'), md.get('pan'), md.get('live')) != (
                    str(len(accepted)), str(nd), str(npn), '0'):
                ctx.report(case, 'model end state ' + m, 'sub=%d done=%d pan=%d live=0' % (len(accepted), nd, npn),
                           cls='pool-end-state', failing_input=False,
                           what='accepted history does not end in the finished state')
            h = hash(tuple(labels))
            if h not in seen_hist:
                seen_hist.add(h)
                if any(l.startswith('V') for l in labels) or any(l.endswith('c') and l.startswith('R') for l in labels) \
                        or int(md.get('maxrun', '0')) >= 2:
                    ctx.mark_nontrivial(tuple(labels))
            # the model of the code before the fix must refuse a completed drop without stop
            if any(o[0] == 'S' for o in full_ops) and 'T' not in labels and 'De' in labels:
                old_lines.append('pool_accepts_old ' + ','.join(labels))
                old_idx.append(idx)
        if len(ctx.samples) < 6 and (idx % 37 == 5 or tag == 'rendezvous-after-panics'):
            ctx.sample({'script': line, 'result': ' '.join('%s=%s' % (k, d[k]) for k in ('ops', 'left', 'runs', 'ends', 'rv')),
                        'history': ','.join(labels), 'model': m})
    ctx.count('distinct_histories', len(seen_hist))
    if old_lines:
        for i, o in zip(old_idx, ctx.model(old_lines)):
            ctx.count('old-model-on-drop-without-stop:' + ('rejects' if o.startswith('reject') else o))
            if not o.startswith('reject'):
                ctx.report({'line': lines[i]}, o, 'reject', cls='pool-old-model', failing_input=False,
                           what='model of the pre-fix Drop accepts a history in which drop without stop completed')
