"""C03, WebSocket message part: WebsocketStream::recv (Message::from_stream) looped over arbitrary bytes on a real socket
pair — every prefix of seed frame streams, structure-aware mutants (length fields replaced by boundary / huge values,
opcodes and flag bits replaced, control frames fragmented or oversized, continuation without a start), random bytes;
each delivered in one write and byte by byte.  Outcome sequence and bytes written compared with the Coq model
(WsMessage.v), PANIC / DIED / HANG / TIMEOUT = violation, measured peak heap growth checked against the model's meter
and against 64 x bytes supplied (theorem C03_wsmsg_recv_safe).  The runner has an address-space limit, so a buffer
sized from a claimed length kills it."""
from props import c11 as C

RULE = ('every prefix of 12 seed streams (single / fragmented / interleaved control frames / all length forms / close), every first '
        'header byte x {00, 7d, 7e, 7f, 80, fe, ff} second byte x {nothing, 12 bytes} after it, length fields replaced by '
        '{0,125,126,127,65535,65536,2^31,2^32,2^40,2^63-1,2^63,2^64-1}, opcode / FIN / RSV / MASK bits flipped, random bytes 0..64, '
        'a stream of 2 000 empty fragments; whole and one byte per write; non-trivial = ends in an error other than end of '
        'input at a frame boundary, or delivers a message assembled from more than one frame')
ASSUMPTIONS = ['peak heap growth is measured by the counting allocator of the harness binary on the server thread while the '
               'client thread only writes pre-built buffers; %d bytes of slack for thread bookkeeping and result strings' % C.ALLOC_SLACK]

AS_LIMIT_KB = 1536 * 1024


def limited_binary():
    return "/bin/sh -c 'ulimit -v %d; exec %s'" % (AS_LIMIT_KB, C.hv.IMPL_BIN)


def seeds(rng):
    F = C.Fr
    k = b'\x11\x22\x33\x44'
    out = []
    out.append([F(C.TEXT, b'hello', 1, k)])
    out.append([F(C.TEXT, b'hel', 0, k), F(C.CONT, b'lo', 1, b'\0\0\0\0')])
    out.append([F(C.BIN, b'ab', 0, k), F(C.PING, b'hi', 1, k), F(C.CONT, b'', 0, k), F(C.PONG, b'', 1, k), F(C.CONT, b'cd', 1, k)])
    out.append([F(C.PING, b'', 1, k), F(C.PING, b'x' * 125, 1, k), F(C.CLOSE, b'\x03\xe8bye', 1, k), F(C.TEXT, b'late', 1, k)])
    out.append([F(C.BIN, bytes(range(200)), 1, k)])
    out.append([F(C.BIN, bytes(300), 1, k, form=8)])
    out.append([F(C.TEXT, b'unmasked', 1, k, mask=False), F(C.CLOSE, b'', 1, k, mask=False)])
    out.append([F(C.TEXT, b'\xff\xfe', 1, k), F(C.CLOSE, b'\x03', 1, k)])
    out.append([F(C.CONT, b'orphan', 1, k), F(C.TEXT, b'a', 0, k), F(C.BIN, b'b', 1, k)])
    out.append([F(C.PING, b'frag', 0, k), F(C.CLOSE, b'', 0, k)])
    out.append([F(C.BIN, b'z' * 65536, 1, k), F(C.CLOSE, b'', 1, k)])
    out.append([F(C.TEXT, b'r', 1, k, rsv=5), F(C.PONG, b'p' * 126, 1, k)])
    return out


def gen(ctx):
    rng = ctx.rng
    thorough = ctx.tier == 'thorough'
    inputs = []          # (bytes, tag)
    for fs in seeds(rng):
        data = b''.join(f.wire() for f in fs)
        step = 1 if len(data) < 500 else 4099
        for i in range(0, len(data) + 1, step):
            inputs.append((data[:i], 'prefix'))
        inputs.append((data, 'prefix'))
    for b0 in range(256):
        for b1 in ((0, 0x7d, 0x7e, 0x7f, 0x80, 0xfe, 0xff) if not thorough else range(256)):
            inputs.append((bytes([b0, b1]), 'hdr'))
            inputs.append((bytes([b0, b1]) + bytes(range(1, 13)), 'hdr'))
    claims = [0, 125, 126, 127, 65535, 65536, 2 ** 31, 2 ** 32, 2 ** 40, 2 ** 63 - 1, 2 ** 63, 2 ** 64 - 1]
    for n in claims:
        for op in (C.TEXT, C.CONT, C.PING, C.CLOSE):
            for mask in (0, 0x80):
                for fin in (0, 0x80):
                    hdr = bytes([fin | op, mask | 127]) + n.to_bytes(8, 'big') + (b'\x01\x02\x03\x04' if mask else b'')
                    inputs.append((hdr + b'abc', 'claim'))
                    if n < 65536:
                        hdr2 = bytes([fin | op, mask | 126]) + n.to_bytes(2, 'big') + (b'\x01\x02\x03\x04' if mask else b'')
                        inputs.append((hdr2 + bytes(min(n, 200)), 'claim'))
    base = [b''.join(f.wire() for f in fs) for fs in seeds(rng)[:10]]
    for _ in range(3000 if thorough else 250):
        d = bytearray(rng.choice(base))
        for _k in range(rng.randint(1, 3)):
            j = rng.randrange(0, min(len(d), 24))
            d[j] = rng.choice([d[j] ^ (1 << rng.randrange(8)), rng.randrange(256)])
        inputs.append((bytes(d), 'mutant'))
    for _ in range(3000 if thorough else 250):
        inputs.append((C.rb(rng, rng.choice([0, 1, 2, 3, 6, 14, 30, 64])), 'random'))
    # many tiny frames: the frame vector grows with the number of frames, not with a claimed length
    inputs.append((bytes([0x01, 0x00]) + bytes([0x00, 0x00]) * 2000, 'many-fragments'))
    inputs.append((bytes([0x01, 0x00]) + bytes([0x00, 0x00]) * 2000 + bytes([0x80, 0x00]), 'many-fragments'))
    inputs.append((bytes([0x81, 0x00]) * 1500, 'many-messages'))
    inputs.append((bytes([0x89, 0x00]) * 1500, 'many-pings'))
    cases = []
    for data, tag in inputs:
        cases.append((data, tag, 'whole', 'c11_run 0 - fin ' + ('h' + data.hex() if data else '-')))
        if 0 < len(data) <= 80:
            cases.append((data, tag, 'bytewise', 'c11_run 0 - fin ' + ','.join('h%02x' % b for b in data)))
    return cases


def run(ctx):
    if ctx.replay:
        if ctx.replay['case'].get('part') != 'wsmsg':
            return
        line = ctx.replay['case']['line']
        data = bytes.fromhex(ctx.replay['case']['data'])
        cases = [(data, 'replay', 'replay', line)]
    else:
        cases = gen(ctx)
    lines = [c[3] for c in cases]
    weights = [1 + len(l) // 20000 for l in lines]
    model = C.run_sharded(C.hv.MODEL_BIN, lines, weights)
    impl = C.run_sharded(limited_binary(), lines, weights)
    ctx.evaluations += len(lines)
    for (data, tag, how, line), a, b in zip(cases, model, impl):
        ctx.count('wsmsg:' + tag + ':' + how)
        case = {'part': 'wsmsg', 'line': line if len(line) < 4000 else line[:4000], 'data': data.hex() if len(data) <= 4096 else data[:4096].hex()}
        ka, kb = C.kv(a), C.kv(b)
        res_b = kb.get('res', b)
        if b in ('PANIC', 'DIED', 'TIMEOUT') or 'PANIC' in res_b or 'HANG' in res_b:
            ctx.report(case, b[:200], a[:200], cls='wsmsg-' + ('hang' if 'HANG' in res_b or b == 'TIMEOUT' else 'crash'), failing_input=True,
                       what='WebsocketStream::recv %s on the %d bytes %s… (%s)' % (
                           'does not return' if 'HANG' in res_b or b == 'TIMEOUT' else 'panics / kills the process', len(data), data[:16].hex(), how))
            continue
        last = res_b.split(';')[-1] if res_b else ''
        ctx.count('wsmsg:impl:' + (last if last.startswith('E:') else 'msg-or-none'))
        if ka.get('res') != kb.get('res') or ka.get('out') != kb.get('out'):
            ctx.report(case, 'impl res=%s out=%s' % (res_b[:160], kb.get('out', '')[:80]), 'model res=%s out=%s' % (ka.get('res', '')[:160], ka.get('out', '')[:80]),
                       cls='wsmsg-class', failing_input=False,
                       what='recv results / bytes written on %d malformed bytes %s… differ from the model' % (len(data), data[:16].hex()))
        if kb.get('peak') is not None and ka.get('alloc') is not None:
            peak, meter = int(kb['peak']), int(ka['alloc'])
            if meter > 64 * len(data) + 32:
                ctx.report(case, 'model meter %d' % meter, '<= 64*%d+32' % len(data), cls='model-alloc', failing_input=False,
                           what='model allocation meter exceeds the proved bound')
            # the property: a constant multiple (64x, proved for the model) of the bytes supplied. The model's own meter follows
            # today's way of concatenating fragments; exceeding it within the bound is counted, not reported
            if meter + C.ALLOC_SLACK < peak <= 64 * len(data) + C.ALLOC_SLACK:
                ctx.count('allocation above the model meter, within 64 x supplied')
            if peak > 64 * len(data) + C.ALLOC_SLACK:
                ctx.report(case, 'peak heap growth %d' % peak, '<= 64 x %d bytes supplied (+%d slack); model meter %d' % (len(data), C.ALLOC_SLACK, meter),
                           cls='wsmsg-alloc', failing_input=True,
                           what='receiving the %d bytes %s… allocated %d bytes; the bytes supplied justify at most %d' % (
                               len(data), data[:16].hex(), peak, 64 * len(data) + C.ALLOC_SLACK))
        if ';' in res_b or last in ('E:opcode', 'E:closed') or (last == 'E:read' and len(data) >= 2):
            ctx.mark_nontrivial((data[:24], len(data), how))
    mid = len(cases) // 2
    ctx.sample({'part': 'wsmsg', 'bytes': cases[mid][0][:24].hex(), 'n': len(cases[mid][0]), 'delivery': cases[mid][2],
                'impl': impl[mid][:120], 'model': model[mid][:120]})
