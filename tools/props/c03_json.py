"""C03, JSON part: Value::parse on arbitrary text — every prefix of seed documents, deep nesting across the depth limit,
structure-aware mutants, random strings over the JSON token alphabet and random Unicode; outcome class compared with the
Coq model (C13's Json.v); PANIC/DIED/TIMEOUT = violation; peak allocation (counting allocator) linear in the input."""
from hv import hx

RULE = ('every prefix of 6 seed documents, nesting 1..100000 of [ and { (across MAX_DEPTH), single-edit mutants, random strings over '
        'the JSON token alphabet, random Unicode incl. surrogate escapes; allocation <= 1024 bytes per input byte + 64 KiB')
ASSUMPTIONS = ['the API takes &str: inputs are valid UTF-8']

SEEDS = ['{"a":[1,2,{"b":null}],"c":"x\\u00e9\\ud83d\\ude00","d":-1.5e10,"e":true}', '[[],{},"",0,false]', '"\\u0041\\n"',
         '{"k":{"k":{"k":[1,[2,[3]]]}}}', ' \t\r\n[1 , 2]\n', '123.456e-7']
ALPHA = list('{}[]:,"\\01-.eEatrufnl \n') + ['é', '\U0001F600', '\\u', 'd83d']


def run(ctx):
    rng = ctx.rng
    if ctx.replay:
        if ctx.replay['case'].get('part') != 'json':
            return
        texts = [ctx.replay['case']['text']]
    else:
        thorough = ctx.tier == 'thorough'
        texts = []
        for s in SEEDS:
            for i in range(len(s) + 1):
                texts.append(s[:i])
        for depth in (1, 10, 255, 256, 257, 300, 1000, 10000, 100000):
            texts.append('[' * depth)
            texts.append('[' * depth + ']' * depth)
            texts.append('{"a":' * depth)
            texts.append('{"a":' * depth + '1' + '}' * depth)
        for _ in range(20000 if thorough else 1500):
            s = list(rng.choice(SEEDS))
            for _ in range(rng.choice([1, 1, 2, 3])):
                r = rng.random()
                i = rng.randrange(len(s) + 1)
                if r < 0.4 and s:
                    del s[min(i, len(s) - 1)]
                elif r < 0.8:
                    s.insert(i, rng.choice(ALPHA))
                elif s:
                    s[min(i, len(s) - 1)] = rng.choice(ALPHA)
            texts.append(''.join(s))
        for _ in range(20000 if thorough else 1500):
            texts.append(''.join(rng.choice(ALPHA) for _ in range(rng.choice([0, 1, 2, 3, 5, 8, 20]))))
    lines = ['jparse %s' % hx(t) for t in texts]
    m, im = ctx.both(lines)
    alloc = ctx.impl(['jalloc %s' % hx(t) for t in texts])
    for t, a, b, al in zip(texts, m, im, alloc):
        cls = b.split(' ')[0].split(':')[0]
        ctx.count('json:impl:' + cls)
        case = {'part': 'json', 'text': t[:2000] if len(t) < 2000 else t[:200] + '...(%d chars)' % len(t)}
        if b in ('PANIC', 'DIED', 'TIMEOUT') or al in ('PANIC', 'DIED', 'TIMEOUT'):
            ctx.report(case, b, a[:100], cls='json-' + b.lower(), failing_input=True, what='JSON parser %s on this input' % b)
            continue
        if a != b:
            ctx.report(case, b[:200], a[:200], cls='json-class', failing_input=False, what='outcome differs from the model')
        parts = al.split(' ')
        if len(parts) >= 3 and parts[2].isdigit() and int(parts[2]) > 1024 * len(t.encode()) + 65536:
            ctx.report(case, al, 'allocation linear in the input', cls='json-alloc', failing_input=True,
                       what='JSON parser allocation not bounded by the input size')
        if cls != 'ok':
            ctx.mark_nontrivial(t)
    ctx.sample({'part': 'json', 'text': texts[len(texts) // 2][:80], 'impl': im[len(texts) // 2][:80]})
