"""C15 — configuration files load into exactly what they describe, or are rejected with a line.
Implementation: humphrey_server::config::tree::parse_conf + Config::from_tree on real files (harness/src/c15.rs);
model: Config.load (extracted from coq/theories/Config.v); independent oracle: confgen.expected (computed from the abstract
configuration, never from the rendered text)."""
import glob
import json
import os

from props import confgen as G

RULE = ('configurations generated from an abstract model (address, port, threads, timeout, websocket, blacklist file+mode, '
        'log level/console/file, cache size with each unit and time, 0..4 hosts, 0..8 routes per host of every route type incl. '
        'multi-pattern routes, proxy target lists, load-balancer mode, unknown keys/sections) rendered under random layouts '
        '(indentation, key/value gap, trailing comments, comment and blank lines, key order, CRLF, splitting of section bodies '
        'into include files with relative and absolute paths, nested); single-fault mutants (missing open/close brace, missing '
        'value, bad number, unknown unit, unterminated quote, non-ASCII at a random position and at EVERY position of seed '
        'files, one violated validation rule per class); every prefix of seed files; the crash corpus. Compared: canonical '
        'field-by-field dump or error class + file + line, implementation vs model vs independent oracle. non-trivial = a '
        'configuration with at least one route and a non-canonical layout, or any mutant')
ASSUMPTIONS = ['the parser sees the file system through File::open/read_to_string only; include and blacklist files are real '
               'files written by the harness under $HV_ROOT/work/c15/<pid>/ (relative paths resolve against the process cwd)',
               'blacklist entries are IPv4 in generated cases (IpAddr::from_str is modelled for IPv4 only)',
               'TLS and plugin sections are not loaded (features off in the harness build); they are generated as unknown sections']


def corpus_cases():
    out = []
    for f in sorted(glob.glob(G.HV_ROOT + '/corpus/C15/*.json')):
        for c in json.load(open(f, encoding='utf-8')):
            if c.get('gen') == 'nest':
                d = c['depth']
                c = dict(c, main='server {\n' + 'a {\n' * d + '}\n' * (d + 1), files={})
            files = {}
            for p, v in c.get('files', {}).items():
                files[p] = bytes.fromhex(v['hex']) if isinstance(v, dict) else v
            out.append({'name': c['name'], 'main': c['main'], 'files': files, 'filename': c.get('filename', 'humphrey.conf'),
                        'expect': c.get('expect')})
    return out


def run_both(ctx, lines):
    """ctx.both, then every line the implementation runner reports as DIED/TIMEOUT is re-run alone: the runner buffers its
    output, so a death also loses the results of the lines before it in the same process."""
    m, im = ctx.both(lines)
    for k, b in enumerate(im):
        if b in ('DIED', 'TIMEOUT'):
            im[k] = ctx.impl([lines[k]])[0]
    for k, a in enumerate(m):
        if a in ('DIED', 'TIMEOUT'):
            m[k] = ctx.model([lines[k]])[0]
    return m, im


def err_matches(out, exp):
    """out = 'err:<class>:<line>:<file>' ; exp = (classes or None, line or None)"""
    if not out.startswith('err:'):
        return False
    _, cls, line, _file = out.split(':', 3)
    classes, ln = exp
    # the wording of the message is not part of the property ("rejected with an error naming file and line"): a message the
    # harness does not recognise (class other[...]) is judged by file and line alone
    if classes is not None and cls not in classes and not cls.startswith('other['):
        return False
    if ln is not None and line != str(ln):
        return False
    return True


def same_rejection(model, impl):
    """the implementation rejected the file with a message whose wording the harness does not know (class other[..]); the
    model rejected it too, at the same file and line (syntax errors) / also as a validation error"""
    if impl.startswith('err:other[') and model.startswith('err:'):
        return model.split(':', 2)[2] == impl.split(']', 1)[1].lstrip(':') if ']' in impl else False
    if impl.startswith('verr:other[') and model.startswith('verr:'):
        return True
    return False


def run(ctx):
    rng = ctx.rng
    thorough = ctx.tier == 'thorough'
    cases = []   # (tag, case dict, expectation, info)
    if ctx.replay:
        rc = ctx.replay['case']
        files = {p: (None if v is None else bytes.fromhex(v)) for p, v in rc['files'].items()}
        cases.append(('replay', {'main': bytes.fromhex(rc['main']).decode('utf-8'), 'files': files,
                                 'filename': rc.get('filename', 'humphrey.conf')}, rc.get('expect'), rc.get('info', '')))
    else:
        for c in corpus_cases():
            cases.append(('corpus', c, ('prefix', c['expect']) if c['expect'] else None, c['name']))
        n = 200000 if thorough else 2000
        for k in range(n):
            conf = G.gen_conf(rng, small=(k % 3 == 0))
            exp = G.expected(conf)
            tag = '%d' % k
            case = G.make_case(conf, rng, tag=tag)
            cases.append(('rendered', case, ('exact', exp), ''))
            if k % 4 == 0:
                cases.append(('rendered-plain', G.make_case(conf, rng, plain=True, tag=tag), ('exact', exp), ''))
            if k % 5 == 0:
                # a second, independent layout of the same configuration: same result (layout independence)
                cases.append(('rendered', G.make_case(conf, rng, tag=tag + 'b', include_p=0.3), ('exact', exp), ''))
            if k % 2 == 0:
                base = G.make_case(conf, rng, tag=tag + 'm', include_p=0.05, allow_abs=False)
                for cls, mc, line, mexp in G.mutants(rng, base):
                    cases.append(('mutant:' + cls, mc, ('err', mexp) if mexp else None, 'line %d' % line))
            if k % 6 == 0:
                for j, (cls, c2, vexp) in enumerate(G.semantic_mutants(rng, conf)):
                    if (k // 6 + j) % 3 == 0 or thorough:
                        cases.append(('invalid:' + cls, G.make_case(c2, rng, tag=tag + 's%d' % j, include_p=0.05), ('exact', vexp), ''))
        # every prefix of a few seeds; a prefix that loses the closing brace must be rejected
        nseed = 12 if thorough else 4
        for k in range(nseed):
            conf = G.gen_conf(rng, small=True)
            base = G.make_case(conf, rng, tag='p%d' % k, include_p=0.1 if k % 2 else 0, allow_abs=False)
            main = base['main']
            last = main.rindex('}')
            for i in range(len(main.encode('utf-8')) + 1):
                b = main.encode('utf-8')[:i]
                try:
                    t = b.decode('utf-8')
                except UnicodeDecodeError:
                    continue
                d = dict(base, main=t)
                cut = len(t) <= last
                cases.append(('prefix', d, ('err', (None, None)) if cut else None, 'prefix %d/%d' % (i, len(main))))
        # a non-ASCII character at every position of seed files
        for k in range(6 if thorough else 2):
            conf = G.gen_conf(rng, small=True)
            base = G.make_case(conf, rng, tag='n%d' % k, include_p=0, plain=(k % 2 == 0))
            for ch in (G.NONASCII if thorough else G.NONASCII[:3] + G.NONASCII[4:5]):
                for pos, d in G.nonascii_everywhere(base, ch):
                    cases.append(('nonascii-everywhere', d, None, 'U+%04X at %d' % (ord(ch), pos)))

    lines = [G.case_line('c15_load', c) for _, c, _, _ in cases]
    m, im = run_both(ctx, lines)
    for (tag, case, exp, info), line, a, b in zip(cases, lines, m, im):
        ctx.count(tag)
        ctx.count('impl:' + b.split(':')[0].split(' ')[0] + (':' + b.split(':')[1] if b.startswith(('err:', 'verr:')) else ''))
        rec = {'main': case['main'].encode('utf-8').hex(),
               'files': {p: (None if v is None else (v if isinstance(v, bytes) else v.encode('utf-8')).hex())
                         for p, v in case['files'].items()},
               'filename': case.get('filename', 'humphrey.conf'), 'stream': tag, 'info': info,
               'expect': exp if exp is None or isinstance(exp[1], str) else None}
        text = case['main'] if len(case['main']) < 600 else case['main'][:600] + '...'
        if b in ('PANIC', 'DIED', 'TIMEOUT', 'NORESULT') or b.startswith('NOHANDLER'):
            ctx.report(rec, b, a, cls='c15-crash', failing_input=True,
                       what='the configuration loader %s on this file:\n%s' % (
                           {'PANIC': 'panics', 'DIED': 'kills the process (stack overflow / abort)',
                            'TIMEOUT': 'does not terminate'}.get(b, 'fails'), text))
            continue
        ok_oracle = True
        if exp is not None:
            kind, want = exp
            bb = b
            if isinstance(want, str) and want.startswith('err:') and b.startswith('err:other[') and ']' in b:
                # unrecognised wording of the message: judged by line (and file), as in err_matches
                bb = 'err:' + want.split(':')[1] + b.split(']', 1)[1]
            elif isinstance(want, str) and want.startswith('verr:') and b.startswith('verr:other['):
                # a validation error whose wording the harness does not know: it is a rejection by validation all the same
                bb = want
            if kind == 'exact':
                ok_oracle = (bb == want)
            elif kind == 'prefix':
                ok_oracle = bb.startswith(want)
            elif kind == 'err':
                ok_oracle = err_matches(b, want)
            if not ok_oracle:
                if kind == 'err' or (isinstance(want, str) and not want.startswith('ok')):
                    what = 'a file with a single fault (%s, %s) is not rejected as required: got %s' % (tag, info, b[:200])
                    cls = 'c15-accepts-invalid' if b.startswith('ok') else 'c15-wrong-error'
                else:
                    what = 'the loaded configuration differs from the one the file describes'
                    cls = 'c15-wrong-config'
                ctx.report(rec, b, want if isinstance(want, str) else repr(want), cls=cls, failing_input=True,
                           what=what + '\nfile:\n' + text)
        if b != a and ok_oracle and same_rejection(a, b):
            ctx.count('error message wording not recognised by the harness: same kind (syntax / validation), file and line as the model')
        elif b != a and ok_oracle:
            ctx.report(rec, 'impl=' + b[:300], 'model=' + a[:300], cls='c15-model-mismatch', failing_input=False,
                       what='implementation and Coq model disagree (oracle, if any, accepts the implementation result)')
        if exp is not None and a != b and not ok_oracle and exp[0] == 'exact' and a == exp[1]:
            pass    # model agrees with the oracle; the implementation is the odd one out (already reported)
        if tag.startswith(('mutant', 'invalid')) or (tag == 'rendered' and ('route' in case['main'] or case['files'])):
            ctx.mark_nontrivial(line)
    for i in (7, len(cases) // 2, len(cases) - 1):
        if 0 <= i < len(cases):
            ctx.sample({'stream': cases[i][0], 'file': cases[i][1]['main'][:300], 'impl': im[i][:200], 'model': m[i][:200]})
