"""C03, HTTP part: Request::from_stream and Response::from_stream on arbitrary bytes."""
import itertools
from props import httpgen as G

RULE = ('every prefix of seed requests/responses; bounded-exhaustive strings over the alphabet {G,E,T,SP,/,H,1,:,CR,LF,0,€} '
        '(quick len<=4 after a valid prefix, thorough len<=5); structure-aware mutants (length fields -> boundary/huge values, '
        'CR/LF/colon/space removed or doubled, multi-byte and invalid UTF-8 at random positions); random bytes; each '
        'all-at-once and byte-by-byte; outcome class compared with the model, peak allocation <= 8*|input| + 64 KiB')
ASSUMPTIONS = ['allocation is measured by a counting GlobalAlloc in the harness process (peak heap growth during the call)']

ALLOC_SLACK = 65536


def seeds(rng):
    reqs, resps = [], []
    for _ in range(12):
        reqs.append(G.render_request(G.rand_request(rng, body_max=40)))
    reqs.append(b'GET / HTTP/1.1\r\nHost: x\r\nContent-Length: 5\r\n\r\nhello')
    reqs.append('GET /é HTTP/1.1\r\nX: €\r\n\r\n'.encode())
    resps.append(b'HTTP/1.1 200 OK\r\nContent-Length: 5\r\nX: y\r\n\r\nhello')
    resps.append(b'HTTP/1.1 200 OK\r\nTransfer-Encoding: chunked\r\n\r\n3\r\nabc\r\n10\r\n0123456789abcdef\r\n0\r\n\r\n')
    resps.append('HTTP/1.1 404 Not Found\r\nX: €\r\n\r\n'.encode())
    resps.append(b'HTTP/1.0 301 Moved Permanently\r\nLocation: /x\r\n\r\n')
    return reqs, resps


def run(ctx):
    rng = ctx.rng
    thorough = ctx.tier == 'thorough'
    reqs, resps = seeds(rng)
    inputs = []   # (kind, bytes)
    for kind, ss in (('req', reqs), ('resp', resps)):
        for s in ss:
            for i in range(len(s) + 1):
                inputs.append((kind, s[:i], 'prefix'))
        nmut = 20000 if thorough else 1500 * ctx.scale
        for _ in range(nmut):
            s = rng.choice(ss)
            for _ in range(rng.choice([1, 1, 2, 3])):
                s = G.mutate(rng, s)
            inputs.append((kind, s, 'mutant'))
        for _ in range(5000 if thorough else 400 * ctx.scale):
            n = rng.choice([0, 1, 2, 5, 20, 100, 1000])
            inputs.append((kind, bytes(rng.getrandbits(8) for _ in range(n)), 'random'))
    # bounded-exhaustive tails after a valid prefix (start line / header section)
    alpha = [b'G', b' ', b'/', b'H', b'1', b':', b'\r', b'\n', b'0', '€'.encode(), b'\xff', b'a']
    L = 5 if thorough else 4
    for k in range(L + 1):
        for tup in itertools.product(alpha, repeat=k):
            t = b''.join(tup)
            if thorough or k < 4 or rng.random() < 0.25:
                inputs.append(('req', b'GET / HTTP/1.1\r\n' + t, 'exh'))
                inputs.append(('resp', b'HTTP/1.1 200 OK\r\n' + t, 'exh'))
                if k <= 3:
                    inputs.append(('req', t, 'exh'))
                    inputs.append(('resp', t, 'exh'))
    # claimed lengths far beyond the data
    for claimed in ('1e14', '100000000000000', '20000000000', '18446744073709551615', '18446744073709551616', '4294967296'):
        inputs.append(('req', ('POST / HTTP/1.1\r\nContent-Length: %s\r\n\r\nabc' % claimed).encode(), 'huge'))
        inputs.append(('resp', ('HTTP/1.1 200 OK\r\nContent-Length: %s\r\n\r\nabc' % claimed).encode(), 'huge'))
        inputs.append(('resp', ('HTTP/1.1 200 OK\r\nTransfer-Encoding: chunked\r\n\r\n%s\r\nabc' % claimed).encode(), 'huge'))
    for hexlen in ('ffffffffffffffff', '10000000000000000', 'fffffffffff', '7fffffffffffffff'):
        inputs.append(('resp', ('HTTP/1.1 200 OK\r\nTransfer-Encoding: chunked\r\n\r\n%s\r\nabc' % hexlen).encode(), 'huge'))
    if ctx.replay and ctx.replay['case'].get('part') == 'http':
        inputs = [(ctx.replay['case']['kind'], bytes.fromhex(ctx.replay['case']['hex']), 'replay')]
    elif ctx.replay:
        return
    lines, meta = [], []
    for kind, data, tag in inputs:
        cmd = 'safe_req' if kind == 'req' else 'safe_resp'
        lines.append('%s %s' % (cmd, G.plan_arg([data] if data else [])))
        meta.append((kind, data, tag, 'whole'))
        if len(data) <= 300 and tag != 'exh':
            lines.append('%s %s' % (cmd, G.plan_arg([data[i:i + 1] for i in range(len(data))])))
            meta.append((kind, data, tag, 'bytewise'))
    m, im = ctx.both(lines)
    for line, (kind, data, tag, plan), a, b in zip(lines, meta, m, im):
        ctx.count('http:%s:%s' % (kind, tag))
        cls, _, alloc = b.partition(' alloc=')
        ctx.count('http:impl:' + cls.split(':')[0])
        case = {'part': 'http', 'kind': kind, 'hex': data.hex(), 'plan': plan, 'line': line[:400]}
        if cls in ('PANIC', 'DIED', 'TIMEOUT', 'NORESULT'):
            ctx.report(case, cls, a, cls='http-' + cls.lower(), failing_input=True,
                       what='%s parser %s on this input' % (kind, {'PANIC': 'panics', 'DIED': 'aborts the process',
                                                                 'TIMEOUT': 'does not terminate'}.get(cls, 'fails')))
            continue
        if alloc and int(alloc) > 8 * len(data) + ALLOC_SLACK:
            ctx.report(case, 'alloc=%s for %d input bytes' % (alloc, len(data)), 'allocation linear in the bytes supplied',
                       cls='http-alloc', failing_input=True, what='%s parser allocates from a claimed length' % kind)
            continue
        if cls != a:
            ctx.report(case, cls, a, cls='http-class', failing_input=False,
                       what='outcome class differs from the model (no crash observed)')
        if tag in ('mutant', 'huge') or (tag == 'prefix' and 0 < len(data)):
            ctx.mark_nontrivial((kind, data))
    # tokio request parser on the same malformed inputs (class only)
    ti = [i for i, l in enumerate(lines) if l.startswith('safe_req')]
    if ctx.tier != 'thorough':
        ti = ti[::2]
    ctx.tokio_twin([lines[i] for i in ti], [m[i] for i in ti], 'http-class-tokio', what='tokio request parser: outcome class differs / crash')
    ctx.sample({'part': 'http', 'case': lines[len(lines) // 3][:200], 'impl': im[len(lines) // 3]})
