"""C17 — humphrey-auth: passwords and session tokens authenticate exactly their owner, only while valid.

Trace conformance: the real `AuthProvider` (over the crate's own `Vec<User>` database) and the real closure registered
by `with_auth_route` are driven through whole operation histories by harness/src/c17.rs; the harness reports, per
operation, the canonical result, the clock second it ran in and the stored users (uid, token, expiry). The extracted Coq
model (Auth.xstep, the model the C17 theorems are about) is then run on the same history WITH THE OBSERVED CLOCK
READINGS and the observed order of RNG draws (tokens / uids canonicalised to their index of first appearance), and
must produce the same result and the same stored users after every step. Independently of the model, a small
dictionary-based reference written from the property text (`Oracle`) decides what every result must be.
"""
import os
import re
import threading

import hv

RULE = ('corpus first; bounded-exhaustive: every history of length <= 4 (thorough: <= 5) over a 12-operation session '
        'alphabet (2 users, lifetimes 0 / 3600 / default, refresh, invalidate, lookup, auth route, unknown token) under 4 '
        'lifetime configurations; structured random histories of length <= 60 over 1..5 users (create/remove user, '
        'verify right/wrong/other/unknown, create_session default/0/1/long/2^64-1, refresh, invalidate, lookup, route '
        'with valid/stale/missing/foreign/malformed cookie, config change), with and without pepper, some with real '
        'sleeps across an expiry; malformed stream: upper-cased / truncated / padded / empty / never-issued tokens and '
        'uids. non-trivial = distinct (operation, result, holder-state) steps whose result is not plain success')
ASSUMPTIONS = [
    'Argon2 (argon2 0.3) verifies exactly the password and secret it hashed (Section hypothesis verify_ok)',
    'the OS RNG never repeats a 256-bit token within a history (rng_ok); the clock does not go back (clock_ok)',
    'all clock reads inside one operation fall into the reported second (the harness avoids second boundaries and '
    'marks a straddle; straddled histories are compared up to that step only)',
]
TRUSTED_EXTRA = [
    'harness/src/c17.rs reaches the Vec<User> database through a delegating wrapper (every call goes to the crate\'s '
    'impl AuthDatabase for Vec<User>) and obtains the with_auth_route closure from a real App through the public '
    'custom-connection-handler interface',
]

U64MAX = 18446744073709551615
FAKE, UPPER, EMPTY, PREFIX, PADDED = 1000000, 2000000, 3000000, 4000000, 5000000


# ---------------------------------------------------------------------------------------------------
# independent reference (property oracle): uid -> {pw, pepper, session}

def secret(pepper):
    """the Argon2 secret: no pepper and an empty pepper are the same (empty) secret"""
    return '' if pepper == 'none' else pepper[1:]


class Oracle:
    def __init__(self, pepper, life, refresh):
        self.users = {}          # insertion-ordered
        self.pepper, self.life, self.refresh = secret(pepper), life, refresh

    def holder(self, tok):
        for u, e in self.users.items():
            if e['s'] is not None and e['s'][0] == tok:
                return u
        return None

    def live(self, tok, now):
        u = self.holder(tok)
        if u is not None and now < self.users[u]['s'][1]:
            return u
        return None

    def create(self, u, life, now, tok):
        if u not in self.users:
            return 'err:2'
        s = self.users[u]['s']
        if s is not None and now < s[1]:
            return 'err:5'
        self.users[u]['s'] = (tok, min(now + life, U64MAX))
        return 'ok:t%d' % tok

    def step(self, f, now):
        k = f[0]
        if k == 'cu':
            u = int(f[2])
            if u in self.users:
                return 'err:3'
            self.users[u] = {'pw': f[1], 'pep': self.pepper, 's': None}
            return 'ok:u%d' % u
        if k == 'ex':
            return 'true' if int(f[1]) in self.users else 'false'
        if k == 've':
            e = self.users.get(int(f[1]))
            return 'true' if e is not None and e['pw'] == f[2] and e['pep'] == self.pepper else 'false'
        if k == 'ru':
            return 'ok' if self.users.pop(int(f[1]), None) is not None else 'err:2'
        if k == 'cs':
            return self.create(int(f[1]), self.life, now, int(f[4]))
        if k == 'cl':
            return self.create(int(f[1]), int(f[2]), now, int(f[5]))
        if k == 'rf':
            u = self.live(int(f[1]), now)
            if u is None:
                return 'err:4'
            self.users[u]['s'] = (int(f[1]), min(now + self.refresh, U64MAX))
            return 'ok'
        if k == 'is':
            u = self.holder(int(f[1]))
            if u is not None:
                self.users[u]['s'] = None
            return 'ok'
        if k == 'iu':
            if int(f[1]) in self.users:
                self.users[int(f[1])]['s'] = None
            return 'ok'
        if k == 'gu':
            u = self.live(int(f[1]), now)
            return 'err:4' if u is None else 'ok:u%d' % u
        if k == 'rt':
            if f[1] == 'none':
                return '401'
            u = self.live(int(f[1]), now)
            return '401' if u is None else 'run:u%d' % u
        if k == 'cfg':
            self.pepper, self.life, self.refresh = secret(f[1]), int(f[2]), int(f[3])
            return 'ok'
        return 'mark'


# ---------------------------------------------------------------------------------------------------
# translation of an implementation history into a model history (observed clock, observed RNG order)

def uid_id(spec, nuids):
    k, i = spec[0], int(spec[1:] or 0)
    if k == 'e':
        return EMPTY
    if k == 'x' or i >= nuids:
        return FAKE + i
    return i if k == 'u' else UPPER + i


def tok_id(spec, ntoks, tbase):
    k, i = spec[0], int(spec[1:] or 0)
    if k == 'e':
        return EMPTY
    j = tbase + i
    if k == 'x' or j >= ntoks:
        return FAKE + i
    return {'t': j, 'T': UPPER + j, 'p': PREFIX + j, 's': PADDED + j}[k]


def translate(line, impl_out):
    """-> dict(model_line, impl_items (normalised), ops (model-form fields), upto (steps comparable), notes)"""
    toks = line.split(' ')
    head, ops = toks[:4], toks[4:]
    items = impl_out.split(' ')
    res = {'ok': True, 'notes': [], 'head': head, 'ops': ops}
    if len(items) != len(ops) or any('@' not in it or '|' not in it for it in items):
        res['ok'] = False
        res['notes'].append('unparsable implementation output: ' + impl_out[:200])
        return res
    nuids = ntoks = tbase = 0
    mops, norm, clocks = [], [], []
    upto = len(ops)
    for idx, (o, it) in enumerate(zip(ops, items)):
        r, rest = it.split('@', 1)
        clock, dump = rest.split('|', 1)
        new_uid = new_tok = None
        if r.startswith('ok:u') and '+' in r:
            new_uid = int(r[4:r.index('+')])
        if r.startswith('ok:t') and '+' in r:
            new_tok = int(r[4:r.index('+')])
        if '!badfmt' in r or '!badfmt' in dump:
            res['notes'].append(('badfmt', idx))
        f = o.split(':')
        k = f[0]
        if '~' in clock and k in ('cs', 'cl', 'rf', 'gu', 'rt') and upto == len(ops):
            upto = idx               # this step read the clock across a second boundary: stop comparing here
        now = clock.split('~')[0]
        if k == 'cu':
            m = ['cu', f[1], str(new_uid if new_uid is not None else nuids), str(nuids)]
        elif k == 'ex':
            m = ['ex', str(uid_id(f[1], nuids))]
        elif k == 've':
            m = ['ve', str(uid_id(f[1], nuids)), f[2]]
        elif k in ('ru', 'iu'):
            m = [k, str(uid_id(f[1], nuids))]
        elif k == 'cs':
            m = ['cs', str(uid_id(f[1], nuids)), now, now, str(new_tok if new_tok is not None else ntoks)]
        elif k == 'cl':
            m = ['cl', str(uid_id(f[1], nuids)), f[2], now, now, str(new_tok if new_tok is not None else ntoks)]
        elif k == 'rf':
            m = ['rf', str(tok_id(f[1], ntoks, tbase)), now, now]
        elif k == 'is':
            m = ['is', str(tok_id(f[1], ntoks, tbase))]
        elif k == 'gu':
            m = ['gu', str(tok_id(f[1], ntoks, tbase)), now]
        elif k == 'rt':
            c = f[1]
            if c == 'none' or c[0] == 'o':
                m = ['rt', 'none', now]
            else:
                m = ['rt', str(tok_id(c[1:] if c[0] == 'm' else c, ntoks, tbase)), now]
        elif k == 'cfg':
            m = ['cfg', f[1], f[2], f[3]]
        else:
            if k == 'ep':
                tbase = ntoks
            m = ['sl']
        if k in ('cs', 'cl') and r.startswith('ok:t') and '+' not in r:
            res['notes'].append(('token-repeat', idx))
        if k == 'cu' and r.startswith('ok:u') and '+' not in r:
            res['notes'].append(('uid-repeat', idx))
        # the harness numbers names at first appearance, in the result or (never expected) in the stored users
        nuids += len(re.findall(r'u\d+\+', it))
        ntoks += len(re.findall(r't\d+\+', it))
        mops.append(m)
        norm.append(r.replace('+', '').replace('!badfmt', '') + '|' + dump.replace('+', '').replace('!badfmt', ''))
        clocks.append(int(now))
    res.update(model_line=' '.join(head + [':'.join(m) for m in mops]), impl_items=norm, mops=mops, upto=upto,
               clocks=clocks)
    return res


def run_parallel(binary, lines, nproc=16):
    """hv.run_lines shards only above 200 lines per shard; histories are expensive (Argon2), so shard finer."""
    if not lines:
        return []
    n = max(1, min(nproc, len(lines)))
    per = (len(lines) + n - 1) // n
    chunks = [lines[i * per:(i + 1) * per] for i in range(n)]
    chunks = [c for c in chunks if c]
    results = [None] * len(chunks)

    def work(k):
        results[k] = hv.run_lines(binary, chunks[k], timeout=1500, shards=1)

    ths = [threading.Thread(target=work, args=(k,)) for k in range(len(chunks))]
    for t in ths:
        t.start()
    for t in ths:
        t.join()
    return [x for r in results for x in r]


# ---------------------------------------------------------------------------------------------------
# generators (implementation-form histories)

CONFIGS = [('none', 3600, 3600), ('h70657070', 0, 3600), ('none', 3600, 0), ('h00ff', 7200, U64MAX)]
EXH_ALPHABET = ['cl:u0:0', 'cl:u0:3600', 'cs:u1', 'rf:t0', 'rf:t1', 'is:t0', 'iu:u0', 'gu:t0', 'gu:t1', 'rt:t0',
                'rf:x7', 'cl:u1:0']


def gen_exhaustive(ctx):
    import itertools
    depth = 5 if ctx.tier == 'thorough' else 4
    eps = [list(x) for k in range(1, depth + 1) for x in itertools.product(EXH_ALPHABET, repeat=k)]
    # only maximal-length histories are needed for the results (every prefix is checked step by step), but shorter ones
    # are kept so that every history is also seen from the fresh state with its own token numbering
    nlines = 16 * len(CONFIGS)
    per = (len(eps) + 15) // 16
    for ci, (pep, life, refresh) in enumerate(CONFIGS):
        for k in range(16):
            chunk = eps[k * per:(k + 1) * per]
            if not chunk:
                continue
            ops = ['cu:h7031', 'cu:h7032']
            for e in chunk:
                ops += ['iu:u0', 'iu:u1', 'ep'] + e
            yield 'auth_seq %s %d %d %s' % (pep, life, refresh, ' '.join(ops)), 'exhaustive'
    ctx.count('exhaustive-episodes', len(eps) * len(CONFIGS))
    return nlines


PWS = ['h68756e7465723432', 'h70617373776f726431', 'h', 'hc3a9c3a8', 'h70617373776f726432', 'h20']


def gen_random_history(rng, maxlen=60, sleeps=0):
    nusers = rng.randint(1, 5)
    pep = rng.choice(['none', 'none', 'h70657070', 'h00', 'h'])
    life = rng.choice([3600, 3600, 0, 86400, 1])
    refresh = rng.choice([3600, 3600, 0, 7200, U64MAX])
    n = rng.randint(8, maxlen)
    ops = []
    created = 0        # create_user calls so far
    pws = []
    ntok = 0           # upper bound on tokens issued
    verifies = 0
    sleeps_left = sleeps

    def some_uid():
        r = rng.random()
        if created and r < 0.82:
            return 'u%d' % rng.randrange(created)
        if r < 0.88:
            return 'x%d' % rng.randrange(8)
        if created and r < 0.94:
            return 'U%d' % rng.randrange(created)
        if r < 0.97:
            return 'u%d' % (created + rng.randrange(3))
        return 'e'

    def some_tok():
        r = rng.random()
        if ntok and r < 0.5:
            return 't%d' % max(0, ntok - 1 - min(rng.randrange(3), rng.randrange(3)))   # recent
        if ntok and r < 0.75:
            return 't%d' % rng.randrange(ntok)                                           # any, often stale
        if r < 0.82:
            return 'x%d' % rng.randrange(8)
        if ntok and r < 0.95:
            return rng.choice('Tps') + str(rng.randrange(ntok))
        if r < 0.98:
            return 't%d' % (ntok + rng.randrange(3))
        return 'e'

    while len(ops) < n:
        r = rng.random()
        if created < nusers and (created == 0 or r < 0.12):
            pw = rng.choice(PWS)
            ops.append('cu:' + pw)
            pws.append(pw)
            created += 1
        elif r < 0.14 and created < 7:
            pw = rng.choice(PWS)
            ops.append('cu:' + pw)
            pws.append(pw)
            created += 1
        elif r < 0.20:
            if verifies < 5 and created:
                u = rng.randrange(created)
                c = rng.random()
                pw = pws[u] if c < 0.45 else (rng.choice(pws) if c < 0.75 else rng.choice(PWS))
                ops.append('ve:u%d:%s' % (u, pw))
                verifies += 1
            else:
                ops.append('ve:%s:%s' % (rng.choice(['x1', 'e', 'u%d' % (created + 2)]), rng.choice(PWS)))
        elif r < 0.24:
            ops.append('ru:' + some_uid())
        elif r < 0.27:
            ops.append('ex:' + some_uid())
        elif r < 0.45:
            u = some_uid()
            c = rng.random()
            if c < 0.35:
                ops.append('cs:' + u)
            else:
                lt = rng.choice([0, 0, 0, 3600, 3600, 86400, 1, 2, U64MAX, U64MAX - 5, 1 << 63, 4000000000])
                ops.append('cl:%s:%d' % (u, lt))
            ntok += 1
        elif r < 0.58:
            ops.append('rf:' + some_tok())
        elif r < 0.66:
            ops.append('is:' + some_tok())
        elif r < 0.72:
            ops.append('iu:' + some_uid())
        elif r < 0.84:
            ops.append('gu:' + some_tok())
        elif r < 0.97:
            c = rng.random()
            t = some_tok()
            if t[0] == 's':
                t = 't' + t[1:]      # cookie values are trimmed by the request parser: a padded token IS the token
            if c < 0.15:
                ops.append('rt:none')
            elif c < 0.25:
                ops.append('rt:o' + t)
            elif c < 0.40:
                ops.append('rt:m' + t)
            else:
                ops.append('rt:' + t)
        elif r < 0.985:
            ops.append('cfg:%s:%d:%d' % (rng.choice(['none', 'h70657070', 'h00', 'h']), rng.choice([3600, 0, 1]),
                                         rng.choice([3600, 0, 2])))
        elif sleeps_left > 0:
            ops.append('sl:%d' % rng.choice([1050, 1100, 2100]))
            sleeps_left -= 1
        else:
            ops.append('gu:' + some_tok())
    return 'auth_seq %s %d %d %s' % (pep, life, refresh, ' '.join(ops))


def gen_expiry_history(rng):
    """short lifetimes and real sleeps: the session really expires during the history"""
    ops = ['cu:h7031', 'cu:h7032']
    lt = rng.choice([1, 1, 2])
    ops += ['cl:u0:%d' % lt, 'gu:t0', 'rt:t0', 'cl:u1:3600', 'cl:u0:%d' % lt]
    ops += ['sl:%d' % rng.choice([400, 600])]
    ops += ['gu:t0', 'rf:t0' if rng.random() < 0.5 else 'gu:t1', 'gu:t0']
    ops += ['sl:%d' % (1000 * lt + rng.choice([50, 300]))]
    ops += ['gu:t0', 'rt:t0', 'rf:t0', 'gu:t0', 'cs:u0', 'gu:t0', 'gu:t2', 'rf:t2', 'gu:t1', 'rt:mt1', 'is:t0', 'gu:t2']
    if rng.random() < 0.5:
        ops += ['cfg:none:1:1', 'iu:u0', 'cs:u0', 'gu:t3', 'rf:t3', 'sl:1100', 'gu:t3', 'rf:t3', 'rt:t3', 'cs:u0', 'gu:t4']
    return 'auth_seq %s %d %d %s' % (rng.choice(['none', 'h6b']), 3600, rng.choice([3600, 1]), ' '.join(ops))


def corpus_lines():
    d = hv.V + '/corpus/C17'
    out = []
    if os.path.isdir(d):
        for fn in sorted(os.listdir(d)):
            for line in open(os.path.join(d, fn), encoding='utf-8'):
                line = line.strip()
                if line and not line.startswith('#'):
                    out.append((line, 'corpus'))
    return out


# ---------------------------------------------------------------------------------------------------

def res_class(r):
    if r.startswith('ok:t'):
        return 'ok:token'
    if r.startswith('ok:u'):
        return 'ok:uid'
    if r.startswith('run:'):
        return 'run'
    return r


def first_mismatch(line, impl_out, model_out):
    """-> None or dict(step, kind, observed, expected, failing_input)"""
    tr = translate(line, impl_out)
    if not tr['ok']:
        return {'step': 0, 'kind': 'harness', 'observed': impl_out[:300], 'expected': 'one item per operation',
                'failing': impl_out.startswith(('PANIC', 'DIED', 'TIMEOUT')), 'tr': tr}
    mitems = model_out.split(' ')
    pep, life, refresh = tr['head'][1], int(tr['head'][2]), int(tr['head'][3])
    orc = Oracle(pep, life, refresh)
    for note in tr['notes']:
        if isinstance(note, tuple):
            return {'step': note[1], 'kind': note[0], 'observed': tr['impl_items'][note[1]],
                    'expected': 'a fresh 64-hex-digit token / v4 uuid that never appeared before', 'failing': True, 'tr': tr}
    first_model = None
    for i in range(tr['upto']):
        it = tr['impl_items'][i]
        r = it.split('|', 1)[0]
        want = orc.step(tr['mops'][i], tr['clocks'][i])
        if r != want:
            # the implementation's own result contradicts the property reference: a failing input
            return {'step': i, 'kind': 'oracle', 'observed': r, 'expected': want, 'failing': True, 'tr': tr}
        if first_model is None and (i >= len(mitems) or mitems[i] != it):
            first_model = {'step': i, 'kind': 'model', 'observed': it,
                           'expected': mitems[i] if i < len(mitems) else '(none)', 'failing': False, 'tr': tr}
    return first_model


def probe(line):
    """a stored-state disagreement: look for a result that shows it (neighbourhood of the history: the same history
    followed by lookups of every token and uid, and one more session per user)"""
    toks = line.split(' ')
    ops = toks[4:]
    nt = sum(1 for o in ops if o.startswith(('cs:', 'cl:')))
    nu = sum(1 for o in ops if o.startswith('cu:'))
    extra = ['gu:t%d' % i for i in range(nt)] + ['rt:t%d' % i for i in range(nt)] + ['ex:u%d' % i for i in range(nu)]
    extra += ['cl:u%d:3600' % i for i in range(nu)] + ['gu:t%d' % i for i in range(nt + nu)]
    cand = ' '.join(toks[:4] + [o for o in ops if o != 'ep'] + extra) if 'ep' not in ops else None
    if cand is None:
        return None
    io = hv.run_lines(hv.IMPL_BIN, [cand], shards=1)[0]
    tr = translate(cand, io)
    if not tr['ok']:
        return None
    mo = hv.run_lines(hv.MODEL_BIN, [tr['model_line']], shards=1)[0]
    mm = first_mismatch(cand, io, mo)
    if mm is not None and mm['kind'] == 'oracle':
        return cand, mm
    return None


def shrink(ctx, line, step, kind=None):
    """greedy: cut the history after the failing step, then drop operations while a mismatch remains"""
    toks = line.split(' ')
    head, ops = toks[:4], toks[4:step + 5]
    budget = 40
    best = ops

    def bad(cand):
        l = ' '.join(head + cand)
        io = hv.run_lines(hv.IMPL_BIN, [l], shards=1)[0]
        tr = translate(l, io)
        if not tr['ok']:
            return True
        mo = hv.run_lines(hv.MODEL_BIN, [tr['model_line']], shards=1)[0]
        m = first_mismatch(l, io, mo)
        return m is not None and (kind is None or m['kind'] == kind)

    # exhaustive lines: keep only the episode the failing step belongs to (episodes start from the session-free state)
    if 'ep' in best:
        k = len(best) - 1 - best[::-1].index('ep')
        lead = [o for o in best[:best.index('ep')] if o.startswith('cu:')]
        cand = lead + best[k + 1:]
        if bad(cand):
            best = cand
    i = 0
    while i < len(best) and budget > 0:
        cand = best[:i] + best[i + 1:]
        budget -= 1
        if cand and bad(cand):
            best = cand
        else:
            i += 1
    return ' '.join(head + best)


def process(ctx, cases, st):
    """run one batch of histories through the implementation and the model, compare, report"""
    # expensive histories (sleeps) first within the shards is not needed: shards run concurrently
    order = sorted(range(len(cases)), key=lambda i: (i % 16, i))      # interleave kinds over the 16 shards
    lines = [cases[i][0] for i in order]
    impl = run_parallel(hv.IMPL_BIN, lines)
    trs = [translate(l, o) for l, o in zip(lines, impl)]
    mlines = [t['model_line'] if t['ok'] else 'auth_seq none 0 0' for t in trs]
    model = run_parallel(hv.MODEL_BIN, mlines)
    ctx.evaluations += len(lines)
    for idx, (line, io, mo) in enumerate(zip(lines, impl, model)):
        tag = cases[order[idx]][1]
        ctx.count('histories:' + tag)
        tr = trs[idx]
        mm = first_mismatch(line, io, mo)
        if tr['ok']:
            ctx.traces += 1
            if tr['upto'] < len(tr['ops']):
                ctx.count('histories-cut-at-second-boundary')
            for i in range(tr['upto']):
                r, dump = tr['impl_items'][i].split('|', 1)
                k = tr['ops'][i].split(':')[0]
                if k in ('ep', 'sl'):
                    continue
                st['nsteps'] += 1
                ctx.count('op:' + k)
                ctx.count('result:%s:%s' % (k, res_class(r)))
                if r not in ('ok', 'mark', 'true') and not r.startswith(('ok:', 'run:')):
                    shape = ''.join('-' if s.endswith('-') else 'S' for s in dump.split(';'))
                    ctx.mark_nontrivial((tr['ops'][i], r, shape, tuple(tr['ops'][max(0, i - 3):i])))
            ctx.count('len<=10' if len(tr['ops']) <= 10 else 'len<=30' if len(tr['ops']) <= 30 else 'len<=60'
                      if len(tr['ops']) <= 60 else 'len>60')
        if mm is None:
            continue
        step = mm['step']
        small = line
        st['nreported'] += 1
        if st['nreported'] > 60:
            ctx.disagreements += 1          # counted, not minimised: the first ones already carry replays
            continue
        minimise = st['nreported'] <= 8
        if minimise and not ctx.replay and mm['kind'] != 'harness':
            try:
                small = shrink(ctx, line, step, mm['kind'])
            except Exception as e:           # noqa: BLE001 — shrinking is best effort
                ctx.notes.append('shrink failed: %r' % (e,))
        if minimise and not ctx.replay and mm['kind'] == 'model':
            try:
                pr = probe(small)
                if pr is not None:
                    small2, mm2 = pr
                    small = shrink(ctx, small2, mm2['step'], 'oracle')
                    mm, step, tr = mm2, mm2['step'], mm2['tr']
                    ctx.count('state-disagreement-shown-by-probe')
            except Exception as e:           # noqa: BLE001
                ctx.notes.append('probe failed: %r' % (e,))
        what = {
            'oracle': 'result differs from the reference: a token/password authenticated (or was rejected) against the '
                      'property',
            'model': 'implementation and Coq model (Auth.xstep) disagree on a result or on the stored users',
            'badfmt': 'a token is not 64 lower-case hex digits (256 bits) / a uid is not a v4 UUID',
            'token-repeat': 'create_session returned a token that had been issued before in the same history',
            'uid-repeat': 'create_user returned a uid that had been issued before in the same history',
            'harness': 'the harness did not produce one result per operation',
        }[mm['kind']]
        ctx.report({'line': small, 'step_in_original': step, 'op': (tr['ops'][step] if tr.get('ops') else '?'),
                    'stream': tag},
                   'impl=' + str(mm['observed']), 'expected=' + str(mm['expected']),
                   cls='auth-' + mm['kind'], failing_input=mm['failing'], what=what)
    # samples
    for idx in range(len(lines)):
        if len(st['sampled']) >= 4:
            break
        if idx < len(lines) and trs[idx]['ok'] and len(ctx.samples) < 6 and cases[order[idx]][1] not in st['sampled']:
            st['sampled'].add(cases[order[idx]][1])
            w = lines[idx].split(' ')
            ctx.sample({'history': ' '.join(w[:24]) + (' ...' if len(w) > 24 else ''),
                        'results': [x.split('|')[0] for x in trs[idx]['impl_items'][:20]],
                        'stream': cases[order[idx]][1]})


# the history of Example C17_demo_results (props/C17.v, proved by vm_compute inside Coq), in model-line form, and the
# results stated there: the extracted runner must print the same (spot check of extraction + driver)
DEMO_LINE = ('auth_seq none 3600 3600 cu:h6875:0:0 cu:h7077:1:1 ve:0:h6875 ve:0:h7077 ve:1:h7077 ve:9:h6875 cs:0:100:100:7 '
             'cl:1:0:100:100:8 cs:0:101:101:9 gu:7:102 gu:8:102 rt:7:102 rt:8:102 rt:none:102 rf:8:103:103 rf:7:103:103 '
             'gu:7:3701 gu:7:3703 cs:0:3704:3704:10 gu:7:3704 gu:10:3704 ru:0 gu:10:3705 rf:10:3705:3705 is:8 '
             'cl:1:18446744073709551615:3706:3706:11 gu:11:4000000000')
DEMO_RESULTS = ('ok:u0 ok:u1 true false true false ok:t7 ok:t8 err:5 ok:u0 err:4 run:u0 401 401 err:4 ok ok:u0 err:4 ok:t10 '
                'err:4 ok:u0 ok err:4 err:4 ok ok:t11 ok:u1').split(' ')
# refresh_old_refuted's witness on the extracted model of the OLD refresh_session
OLD_LINE = 'auth_seq_old none 3600 3600 cu:h7077:0:0 cl:0:0:100:100:7 gu:7:100 rf:7:100:100 gu:7:101 rt:7:3000'
OLD_RESULTS = 'ok:u0 ok:t7 err:4 ok ok:u0 run:u0'.split(' ')


def extraction_spot_check(ctx):
    for line, want, name in ((DEMO_LINE, DEMO_RESULTS, 'C17_demo_results'), (OLD_LINE, OLD_RESULTS, 'refresh_old_refuted')):
        got = [x.split('|')[0] for x in hv.run_lines(hv.MODEL_BIN, [line], shards=1)[0].split(' ')]
        ctx.count('extraction-spot-check-steps', len(want))
        if got != want:
            ctx.report({'line': line, 'coq_example': name}, 'extracted=' + ' '.join(got), 'vm_compute=' + ' '.join(want),
                       cls='auth-extraction', failing_input=False,
                       what='the extracted model runner disagrees with the results proved inside Coq by vm_compute')


def run(ctx):
    rng = ctx.rng
    thorough = ctx.tier == 'thorough'
    if ctx.replay:
        cases = [(ctx.replay['case']['line'], 'replay')]
    else:
        cases = corpus_lines()
        exh = list(gen_exhaustive(ctx))
        nrand = 3000 if thorough else 360
        nsleepy = 96 if thorough else 16
        for i in range(nrand):
            cases.append((gen_random_history(rng, sleeps=(1 if i < nsleepy else 0)), 'random'))
        for i in range(64 if thorough else 16):
            cases.append((gen_expiry_history(rng), 'expiry'))
        ctx.exhaustive = True
    st = {'nsteps': 0, 'nreported': 0, 'sampled': set()}
    if not ctx.replay:
        extraction_spot_check(ctx)
    process(ctx, cases, st)
    if not ctx.replay:
        # the exhaustive stream, one lifetime configuration at a time (bounds the memory of the thorough tier)
        for k in range(0, len(exh), 16):
            process(ctx, exh[k:k + 16], st)
    nsteps = st['nsteps']
    ctx.count('steps', nsteps)
    ctx.extra['steps_compared'] = nsteps
