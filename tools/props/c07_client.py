"""C07, client clause — with redirect following enabled the client ends at the final non-redirect response.
The real humphrey::Client (get/post/put/delete, with_cookie, with_redirects, send) talks to scripted mock origins on port
80 of six loopback addresses (Client::parse_url can reach no other port); the Coq model Client.send runs against the
same table. Direct oracle: an independent walk of the chain (RFC 3986 reference resolution for absolute-path and
absolute-URI references) gives the sequence of targets and the final response the client must return."""
import urllib.parse
from hv import hx

RULE = ('redirect chains of length 0..5 (thorough: 0..12) over {301,302,307}, each hop with a relative (absolute-path, with '
        'and without query) or absolute (http://host[/path][?query], six origins) Location, final codes = every modelled status the client does not follow, origins answering with Content-Length or chunked framing, '
        'bodies 0..200 bytes, methods GET/DELETE/POST/PUT, 0..2 cookies, follow on/off, initial URL with and without '
        'path/query; every hop has decoy entries (old query inherited, query dropped, other origin); second stream of '
        'unsupported/malformed Locations (model vs implementation only); non-trivial = chain of >= 1 hop followed')
ASSUMPTIONS = ['Client::parse_url appends :80, so the mock origins listen on port 80 of 127.A.B.1..6 (needs the right to bind '
               'port 80 on loopback)',
               'redirect cycles are outside the quantifier (the real client recurses without bound; the model runs out of fuel)',
               'the build without the `tls` feature is modelled: an https Location ends in the TLS-not-enabled error']

REDIR = [301, 302, 307]
# every status Humphrey models that the client does not follow (the mock frames all of them alike)
FINAL = [100, 101, 200, 201, 202, 203, 204, 205, 206, 300, 303, 304, 305, 400, 401, 403, 404, 405, 406, 407, 408, 409, 410, 411, 412, 413,
         414, 415, 416, 417, 500, 501, 502, 503, 504, 505]
SEGS = ['a', 'b', 'docs', 'x.html', 'img', 'v1', 'a%20b', 'A', 'b', 'a']
ERRS = {b'Invalid URL': 'InvalidURL', b'No location header': 'NoLocation', b'TLS feature is not enabled': 'TLS'}


def ent(h, t, c, l, b, chunked=False):
    return '%d:%s:%d:%s:%s' % (h, hx(t), c, hx(l) if l is not None else '-', hx(b)) + (':c' if chunked else '')


def rpath(rng):
    n = rng.randint(0, 3)
    p = '/' + '/'.join(rng.choice(SEGS) for _ in range(n))
    if n and rng.random() < 0.2:
        p += '/'
    return p


def rquery(rng):
    return rng.choice(['', '', 'x=1', 'y=2&z=3', 'q', 'a=b?c'])


def tgt(path, query):
    return path + ('?' + query if query else '')


def gen_chain(rng, maxlen):
    """-> (line, expected walk [(host, target)], expected final (code, body), followed hops)"""
    n = rng.randint(0, maxlen)
    fmode = rng.choice(['1'] * 17 + ['0', '0', 'd'])      # 'd' = builder default: with_redirects never called
    follow = fmode == '1'
    method = rng.choice(['GET'] * 7 + ['DELETE', 'POST', 'PUT'])
    body = bytes(rng.getrandbits(8) for _ in range(rng.randint(0, 40))) if method in ('POST', 'PUT') else None
    cookies = [(rng.choice(['k', 'sid', 'a']), rng.choice(['v', '1', 'x y'])) for _ in range(rng.choice([0, 0, 1, 2]))]
    host = rng.randint(0, 5)
    path, query = rpath(rng), rquery(rng)
    no_path = rng.random() < 0.08
    if no_path:
        path, query = '/', ''
    url = 'http://@H%d@' % host + ('' if no_path else path + ('?' + query if query else ''))
    table = {}
    walk = []
    cur = (host, path, query)
    used = set()
    for i in range(n + 1):
        key = (cur[0], tgt(cur[1], cur[2]))
        used.add(key)
        walk.append(key)
        if i >= n:
            break
        code = rng.choice(REDIR)
        # next target
        while True:
            relative = rng.random() < 0.5
            nh = cur[0] if relative else rng.randint(0, 5)
            np_, nq = rpath(rng), rquery(rng)
            if (nh, tgt(np_, nq)) not in used:
                break
        if relative:
            loc = tgt(np_, nq)
        else:
            bare = (np_ == '/' and not nq and rng.random() < 0.5)
            loc = 'http://@H%d@' % nh + ('' if bare else tgt(np_, nq))
        table[key] = (code, loc, bytes(rng.getrandbits(8) for _ in range(rng.randint(0, 12))))
        # decoys: what a wrong resolution would ask for
        for dk in [(nh, tgt(np_, cur[2])), (nh, np_), (cur[0], tgt(np_, nq)), (nh, tgt(np_, nq) + ('?' + cur[2] if cur[2] else ''))]:
            if dk != (nh, tgt(np_, nq)) and dk not in used:
                table.setdefault(dk, (200, None, b'decoy'))
        cur = (nh, np_, nq)
    fcode = rng.choice(FINAL)
    fbody = bytes(rng.getrandbits(8) for _ in range(rng.choice([0, 1, 5, rng.randint(0, 200)])))
    floc = '/elsewhere' if fcode in (300, 303, 305) else None
    table[walk[-1]] = (fcode, floc, fbody)
    if not follow:
        walk = walk[:1]
    first = table[walk[0]] if not follow else None
    final = (first[0], first[2]) if first else (fcode, fbody)
    # origins frame their answers with Content-Length or with chunked coding (the client must return the same either way)
    ents = [ent(h, t, c, l, b, rng.random() < 0.4) for (h, t), (c, l, b) in table.items()]
    rng.shuffle(ents)
    line = 'redirect %s %s %s %s %s %s' % (method, hx(url), hx(body) if body else '-', fmode,
                                          '+'.join('%s=%s' % (hx(k), hx(v)) for k, v in cookies) or '-', ','.join(ents) or '-')
    return line, walk, final, (len(walk) - 1 if follow else 0)


ODD_LOCS = ['b/c', '', '//@H1@/x', 'https://@H1@/x', 'http://127.0.0.1:8080/x', 'http://@H1@?x=1', 'HTTP://@H1@/x', '/p#frag',
            None, '/x y', 'ftp://@H1@/x', 'http://', 'http:///x', '/', '?x=1', 'http://@H2@/a/../b', '/a?b?c', 'http://@H9@/x',
            'http://@H1@:80/x']


def gen_odd(rng):
    host = rng.randint(0, 5)
    loc = rng.choice(ODD_LOCS)
    code = rng.choice(REDIR)
    table = [ent(host, '/s', code, loc, b'r')]
    for h in range(6):
        for t in ['/x', '/p', '/', '/b/c', '/a/../b', '/a?b?c', '/p#frag', '/s?x=1', '/x%20y', '/?x=1']:
            table.append(ent(h, t, 200, None, ('ok%d%s' % (h, t)).encode()))
    return 'redirect %s %s - 1 - %s' % (rng.choice(['GET', 'DELETE']), hx('http://@H%d@/s' % host), ','.join(table))


def _table_errs():
    """the client's error messages as the table generator read them from client.rs (their wording is not part of the property)"""
    import os
    import re
    out = dict(ERRS)
    try:
        from hv import V
        t = open(os.path.join(V, 'coq/theories/TablesClient.v'), encoding='utf-8').read()
        for name, cls in (('CLIENT_ERR_NO_LOCATION', 'NoLocation'), ('CLIENT_ERR_INVALID_URL', 'InvalidURL')):
            m = re.search(r'Definition %s : list N := \[([0-9; ]*)\]' % name, t)
            if m:
                out[bytes(int(x) for x in m.group(1).split(';') if x.strip())] = cls
    except (OSError, ValueError, ImportError):
        pass
    return out


def norm_impl(b):
    global ERRS
    if not getattr(norm_impl, 'ready', False):
        ERRS = _table_errs()
        norm_impl.ready = True
    if b.startswith('err='):
        e, _, rest = b[4:].partition(' ')
        try:
            txt = bytes.fromhex(e)
        except ValueError:
            return b
        return 'err=' + ERRS.get(txt, 'TLS' if b'TLS' in txt else 'other:' + txt.decode('utf-8', 'replace')) + ' ' + rest
    return b


def parse_out(s):
    """'res=code:version:body:loc log=...' -> (('res', code, body) | ('err', name), [(host, target)])"""
    head, _, log = s.partition(' log=')
    walk = []
    for e in [x for x in log.split(';') if x]:
        f = e.split('|')
        walk.append((int(f[0]), bytes.fromhex(f[2]).decode('utf-8', 'replace')))
    if head.startswith('res='):
        f = head[4:].split(':')
        return ('res', int(f[0]), bytes.fromhex(f[2])), walk
    return ('err', head[4:]), walk


def run(ctx):
    rng = ctx.rng
    thorough = ctx.tier == 'thorough'
    n = 6000 if thorough else 500 * ctx.scale
    lines, meta = [], []
    if ctx.replay:
        if not ctx.replay['case'].get('line', '').startswith('redirect '):
            return
        lines, meta, n = [ctx.replay['case']['line']], [None], 0
    for i in range(n):
        line, walk, final, hops = gen_chain(rng, 12 if thorough and i % 4 == 0 else 5)
        lines.append(line)
        meta.append(('chain', walk, final, hops))
    for i in range(n // 5):
        lines.append(gen_odd(rng))
        meta.append(('odd', None, None, 0))
    m, im = ctx.both(lines)
    if im and all(x.startswith('SKIP:') for x in im):
        # the mock origins need port 80 on loopback (Client::parse_url reaches no other port); without that right the
        # correspondence of the client clause cannot run - the theorems still do. Not a violation of the property.
        ctx.count('client correspondence skipped: ' + im[0][5:], len(im))
        ctx.extra['client_correspondence'] = 'skipped: ' + im[0][5:]
        return
    for line, me, a, b in zip(lines, meta, m, im):
        b = norm_impl(b)
        if me is None:
            if a != b:
                ctx.report({'line': line[:3000], 'kind': 'client'}, b[:600], a[:600], cls='client-mismatch', failing_input=False,
                           what='replayed client case: implementation and model differ')
            continue
        kind, walk, final, hops = me
        ctx.count('kind:client-' + kind)
        case = {'line': line[:3000], 'kind': 'client-' + kind}
        if kind == 'chain':
            ctx.count('client chain length:%d' % hops)
            try:
                res, got_walk = parse_out(b)
            except (ValueError, IndexError):
                res, got_walk = ('bad', b), []
            if res != ('res', final[0], final[1]) or got_walk != walk:
                ctx.report(case, b[:600], 'final %d %s via %r' % (final[0], final[1].hex(), walk), cls='client-redirect',
                           failing_input=True,
                           what='the client did not end at the final non-redirect response of the chain (or asked other targets '
                                'on the way): got %r via %r' % (res[:2], got_walk))
                continue
            if hops >= 1:
                ctx.mark_nontrivial(line)
        if a != b:
            ctx.report(case, b[:600], a[:600], cls='client-mismatch', failing_input=False,
                       what='client implementation and model differ')
    for k in (0, len(lines) - 1):
        if 0 <= k < len(lines):
            ctx.sample({'case': lines[k][:200], 'model': m[k][:200], 'impl': norm_impl(im[k])[:200]})
