"""C18 (percent part) — model of percent.rs (proved: encode spec, decode . encode = id, decode <-> every % followed by two hex
digits) vs humphrey::percent::{PercentEncode, PercentDecode}, with an independent Python reference and urllib.parse."""
import itertools
import os
import re
import urllib.parse
from hv import hx, unhx, V

RULE = ('percent: corpus (F29 witnesses, RFC/repo vectors); encode of every byte and every byte pair (+ round trip through the '
        'real String); decode of all strings of length <= 4 (thorough: <= 6) over {%,0,9,a,F,g,+,space,e-acute} and of all '
        'strings % x y for every pair of ASCII bytes x,y; random byte strings (len <= 80) for encode/round trip; random '
        'mostly-valid escaped strings with random hex case plus a mutated stream (dropped/replaced digit, dangling %, '
        'multi-byte char inside an escape, +, space); non-trivial = contains a byte that must be escaped / a %')
ASSUMPTIONS = ['percent_decode receives a &str, i.e. valid UTF-8; it iterates bytes(), so the model works on the UTF-8 bytes',
               'format!("%{:02X}", u8) prints two uppercase hex digits; char::to_digit(16) accepts exactly 0-9a-fA-F '
               '(Rust std, below the model boundary; both covered by the correspondence run)']

UNRESERVED = set(b'ABCDEFGHIJKLMNOPQRSTUVWXYZabcdefghijklmnopqrstuvwxyz0123456789-._~')
WF = re.compile(rb'(?:[^%]|%[0-9A-Fa-f]{2})*\Z', re.S)


def ref_encode(b):
    return ''.join(chr(x) if x in UNRESERVED else '%%%02X' % x for x in b).encode('ascii')


def ref_decode(s):
    """Independent reference: None unless every % is followed by two hex digits."""
    if not WF.match(s):
        return None
    out = bytearray()
    i = 0
    while i < len(s):
        if s[i] == 0x25:
            out.append(int(s[i + 1:i + 3], 16))
            i += 3
        else:
            out.append(s[i])
            i += 1
    return bytes(out)


def fmt_opt(b):
    return 'none' if b is None else 'some:' + hx(b)


def corpus():
    p = V + '/corpus/C18/pct.txt'
    if not os.path.exists(p):
        return
    for line in open(p, encoding='utf-8'):
        line = line.rstrip('\n')
        if not line or line.startswith('#'):
            continue
        fn, _, txt = line.partition(' ')
        raw = re.sub(rb'\\x([0-9a-fA-F]{2})', lambda m: bytes([int(m.group(1), 16)]), txt.encode('utf-8'))
        yield ('pct_dec' if fn == 'dec' else 'pct_enc'), raw, 'corpus'


def gen(ctx):
    thorough = ctx.tier == 'thorough'
    rng = ctx.rng
    yield from corpus()
    # --- encode: every byte, every byte pair; round trip of the same through the real String
    for a in range(256):
        yield 'pct_enc', bytes([a]), 'enc-byte'
        yield 'pct_rt', bytes([a]), 'rt-byte'
    for a in range(256):
        for b in range(256):
            yield 'pct_enc', bytes([a, b]), 'enc-pair'
    for a in range(256):
        for b in range(256):
            yield 'pct_rt', bytes([a, b]), 'rt-pair'
    # --- decode: all strings up to length 4 (6) over the named alphabet
    alpha = ['%', '0', '9', 'a', 'F', 'g', '+', ' ', 'é']
    for k in range((6 if thorough else 4) + 1):
        for x in itertools.product(alpha, repeat=k):
            yield 'pct_dec', ''.join(x).encode('utf-8'), 'dec-exh'
    # every "%xy" over ASCII x, y (all 2-character arguments from_str_radix / to_digit can see), and with a trailing byte
    for a in range(128):
        for b in range(128):
            yield 'pct_dec', bytes([0x25, a, b]), 'dec-pairs'
    for a in range(128):
        yield 'pct_dec', bytes([0x25, a]), 'dec-short'
        yield 'pct_dec', bytes([0x25, 0x34, a, 0x25]), 'dec-short'
    # 2-byte characters in either digit position
    for ch in ('é', 'ÿ', '\u0080', '€', '😀'):
        for d in '04aF+':
            yield 'pct_dec', ('%' + ch + d).encode('utf-8'), 'dec-multibyte'
            yield 'pct_dec', ('%' + d + ch).encode('utf-8'), 'dec-multibyte'
    # --- random
    n = 200000 if thorough else 6000
    for _ in range(n):
        ln = rng.choice([0, 1, 2, 3, 5, 8, 13, 21, 34, 55, 80])
        kind = rng.random()
        if kind < 0.4:
            b = bytes(rng.randrange(256) for _ in range(ln))
        elif kind < 0.7:
            b = bytes(rng.choice(b'aZ09-._~ %/+?&=\x00\x7f\x80\xff') for _ in range(ln))
        else:
            b = ''.join(rng.choice('aé€😀 %') for _ in range(ln)).encode('utf-8')
        yield 'pct_enc', b, 'enc-random'
        yield 'pct_rt', b, 'rt-random'
    for _ in range(n):
        # mostly-valid escaped string with random hex case
        parts = []
        for _ in range(rng.choice([1, 2, 3, 5, 8, 20])):
            r = rng.random()
            if r < 0.45:
                h = '%02x' % rng.randrange(256)
                parts.append('%' + ''.join(c.upper() if rng.random() < 0.5 else c for c in h))
            elif r < 0.9:
                parts.append(rng.choice('abcXYZ019-._~ +/?é€'))
            else:
                parts.append(rng.choice(['%25', '%2B', '%20', '%00', '%7e']))
        s = ''.join(parts)
        tag = 'dec-random-valid'
        if rng.random() < 0.5:
            tag = 'dec-random-mutant'
            m = rng.randrange(7)
            i = rng.randrange(len(s) + 1)
            if m == 0 and s:
                i = min(i, len(s) - 1)
                s = s[:i] + s[i + 1:]                      # drop a character
            elif m == 1:
                s = s + rng.choice(['%', '%4', '%f', '%+'])  # dangling escape
            elif m == 2:
                s = s[:i] + rng.choice(['%+1', '%-1', '% 1', '%1 ', '%+f', '%0x', '%x0', '%g1', '%1G']) + s[i:]
            elif m == 3:
                s = s[:i] + '%' + rng.choice('é€😀') + rng.choice('0aF') + s[i:]
            elif m == 4:
                s = s[:i] + '%' + rng.choice('0aF') + rng.choice('é€😀') + s[i:]
            elif m == 5:
                s = s[:i] + '%' + s[i:]                    # stray %
            else:
                s = s.replace('%', '%%', 1)
        yield 'pct_dec', s.encode('utf-8'), tag


def tables_in_sync(ctx):
    """The generated table file must be exactly what the generator produces from the Rust source now (a generator that can
    no longer find its constant, or a stale file, would silently decouple the proofs from the code)."""
    import importlib
    import hv
    try:
        outs = importlib.import_module('tables.pct').generate(hv.REPO)
        for name, content in outs.items():
            path = hv.COQ + '/theories/' + name
            if not os.path.exists(path) or open(path).read() != content:
                raise RuntimeError(name + ' on disk differs from what the generator produces')
    except Exception as e:  # noqa: BLE001
        ctx.report({'part': 'pct', 'tables': 'tools/tables/pct.py'}, repr(e), 'tables regenerate from the Rust source',
                   cls='tables-out-of-sync', failing_input=False,
                   what='table generator for pct failed or its output is stale: the theorems no longer speak about the '
                        'constants in the source')


def run(ctx):
    import time
    t0 = time.time()
    _run(ctx)
    ctx.extra.setdefault('part_wall_s', {})['c18_pct'] = round(time.time() - t0, 1)


def _run(ctx):
    tables_in_sync(ctx)
    if ctx.replay:
        c = ctx.replay.get('case', {})
        if c.get('part') != 'pct':
            return
        cases = [(c['fn'], unhx(c['arg']), 'replay')]
    else:
        cases = list(gen(ctx))
        ctx.exhaustive = True
        ctx.extra['pct_exhaustive_domains'] = ['encode: every byte, every byte pair', 'decode: all strings <= %d over the '
                                               '9-symbol alphabet; every %%xy over ASCII x,y' % (
                                                   6 if ctx.tier == 'thorough' else 4)]
    lines = ['%s %s' % (fn, hx(arg)) for fn, arg, _ in cases]
    m, im = ctx.both(lines)
    for (fn, arg, tag), a, b, line in zip(cases, m, im, lines):
        ctx.count('pct:' + tag)
        case = {'part': 'pct', 'fn': fn, 'arg': hx(arg), 'text': arg.decode('utf-8', 'replace'), 'line': line}
        if fn == 'pct_enc':
            want = hx(ref_encode(arg))
            lib = hx(urllib.parse.quote(arg, safe='').encode('ascii'))
            if lib != want:
                ctx.report(case, 'urllib=' + lib, 'reference=' + want, cls='oracle-vs-oracle', failing_input=False,
                           what='Python reference encoder and urllib.parse.quote disagree')
            if any(x not in UNRESERVED for x in arg):
                ctx.mark_nontrivial(('enc', arg))
            ctx.count('pct:enc:' + ('escaped' if want != hx(arg) else 'identity'))
        elif fn == 'pct_rt':
            want = 'some:' + hx(arg)
            if any(x not in UNRESERVED for x in arg):
                ctx.mark_nontrivial(('rt', arg))
        else:
            r = ref_decode(arg)
            want = fmt_opt(r)
            if r is not None:
                lib = urllib.parse.unquote_to_bytes(arg)   # lenient on malformed input, exact on well-formed input
                if lib != r:
                    ctx.report(case, 'urllib=' + hx(lib), 'reference=' + want, cls='oracle-vs-oracle', failing_input=False,
                               what='Python reference decoder and urllib.parse.unquote_to_bytes disagree')
            if b'%' in arg:
                ctx.mark_nontrivial(('dec', arg))
            ctx.count('pct:dec:' + ('ok' if r is not None else 'rejected'))
        ctx.count('pct:impl:' + (b.split(':')[0] if fn != 'pct_enc' else 'string'))
        if b == want and a != want:
            # the implementation is right and the (proved) model is not: machinery problem, surface loudly
            ctx.report(case, 'model=' + a, 'oracle=' + want, cls='model-vs-oracle', failing_input=False,
                       what='Coq model of %s disagrees with the Python reference' % fn)
        if b != want:
            if fn == 'pct_dec' and want == 'none' and b.startswith('some:'):
                cls, what = 'pct-decode-accepts-malformed', 'percent_decode(%r) = %s but a %% is not followed by two hex digits' % (
                    arg.decode('utf-8', 'replace'), b)
            elif fn == 'pct_dec':
                cls, what = 'pct-decode-wrong', 'percent_decode(%r) = %s, expected %s' % (arg.decode('utf-8', 'replace'), b, want)
            elif fn == 'pct_enc':
                cls, what = 'pct-encode-wrong', 'percent_encode(%s) = %r, RFC 3986 gives %r' % (
                    hx(arg), unhx(b) if b.startswith('h') else b, unhx(want))
            else:
                cls, what = 'pct-roundtrip', 'percent_decode(percent_encode(%s)) = %s' % (hx(arg), b)
            ctx.report(case, 'impl=' + b + ' model=' + a, 'spec=' + want, cls=cls, failing_input=True, what=what)
    for fn, arg, tag in cases[:2] + cases[-2:]:
        ctx.sample({'part': 'pct', 'fn': fn, 'arg': hx(arg), 'stream': tag})
