"""C03, configuration part: parse_conf + Config::from_tree on arbitrary (valid UTF-8, the API takes &str) text and arbitrary
include files (which may be invalid UTF-8, directories, missing, cyclic)."""
import itertools

from props import confgen as G

RULE = ('the C15 crash corpus; every prefix of seed configuration files; structure-aware mutants (lines deleted/duplicated/swapped, braces, quotes, '
        'spaces, # removed or doubled, values replaced by boundary and huge numbers with each unit, multi-byte characters '
        'inserted at every position of seed lines); bounded-exhaustive short lines over the alphabet {a,1,K,space,quote,{,},#,é} '
        'inside a server section, as a size value, as a host / route name and as an include path (quick len<=4, thorough len<=5; names len<=3); random valid-UTF-8 strings; nesting depth 10..100000 for '
        'sections, routes and hosts; include chains and cycles (self, two files, through a section) with missing / directory / '
        'invalid-UTF-8 targets; outcome class (ok / syntax error / validation error) compared with the model, PANIC / DIED / '
        'TIMEOUT = violation; peak allocation <= 64*|input files| + 256 KiB per include level')
ASSUMPTIONS = ['allocation is measured by a counting GlobalAlloc in the harness process (peak heap growth during the call)',
               'the configuration parser runs on a thread with the default 8 MiB main-thread stack']

ALLOC_FACTOR = 64
ALLOC_SLACK = 262144
MAX_DEPTH = 64


def mutate(rng, text):
    r = rng.random()
    lines = text.split('\n')
    if r < 0.12 and len(lines) > 1:
        del lines[rng.randrange(len(lines))]
        return '\n'.join(lines)
    if r < 0.2 and lines:
        i = rng.randrange(len(lines))
        lines.insert(i, lines[i])
        return '\n'.join(lines)
    if r < 0.27 and len(lines) > 1:
        i, j = rng.randrange(len(lines)), rng.randrange(len(lines))
        lines[i], lines[j] = lines[j], lines[i]
        return '\n'.join(lines)
    if r < 0.45:
        ch = rng.choice('{}"# \t\n')
        pos = [k for k, c in enumerate(text) if c == ch]
        if pos:
            k = rng.choice(pos)
            return text[:k] + (ch * 2 if rng.random() < 0.4 else '') + text[k + 1:]
    if r < 0.6:
        k = rng.randint(0, len(text))
        return text[:k] + rng.choice(G.NONASCII + [' ', '\u0085', '﻿', '"', '{', '}', '#', '\r']) + text[k:]
    if r < 0.8:
        import re
        nums = list(re.finditer(r'(?<![\w.:/])\d+[KMGkmg]?(?![\w.:/])', text))
        if nums:
            m = rng.choice(nums)
            new = rng.choice(['9223372036854775807', '9223372036854775808', '-9223372036854775808', '-9223372036854775809',
                              '8589934591G', '8589934592G', '99999999999G', '9007199254740992K', '9007199254740991K',
                              '-9007199254740993K', '8796093022208M', '0', '-0', '+5', '00080', '1é', 'é', '1K1', 'K', '-K', '+G',
                              '1' * 40, '١٢٣', '１２３', '18446744073709551616', '65536', '4294967296'])
            return text[:m.start()] + new + text[m.end():]
    k = rng.randint(0, len(text))
    j = min(len(text), k + rng.randint(1, 6))
    return text[:k] + text[j:]


def nest(kind, depth, close=True):
    hdr = {'section': 'a {', 'route': 'route /x {', 'host': 'host "h" {', 'mixed': None}[kind]
    hs = [hdr if hdr else ['a {', 'route /x {', 'host h {', 'log {'][k % 4] for k in range(depth)]
    return 'server {\n' + '\n'.join(hs) + '\n' + ('}\n' * (depth + 1) if close else '')


def run(ctx):
    rng = ctx.rng
    thorough = ctx.tier == 'thorough'
    inputs = []   # (tag, case)
    if ctx.replay and ctx.replay['case'].get('part') == 'conf':
        rc = ctx.replay['case']
        files = {p: (None if v is None else bytes.fromhex(v)) for p, v in rc['files'].items()}
        inputs.append(('replay', {'main': bytes.fromhex(rc['main']).decode('utf-8'), 'files': files}))
    elif ctx.replay:
        return
    else:
        # the crash corpus of C15 (former panics / stack overflows) runs first
        from props import c15 as C15
        for c in C15.corpus_cases():
            inputs.append(('corpus', {'main': c['main'], 'files': c['files'], 'note': c['name']}))
        seeds = []
        for k in range(24 if thorough else 5):
            conf = G.gen_conf(rng, small=True)
            seeds.append(G.make_case(conf, rng, tag='c03s%d' % k, include_p=0.15 if k % 2 else 0, allow_abs=False))
        for s in seeds:
            b = s['main'].encode('utf-8')
            for i in range(len(b) + 1):
                try:
                    t = b[:i].decode('utf-8')
                except UnicodeDecodeError:
                    continue
                inputs.append(('prefix', dict(s, main=t)))
        for _ in range(200000 if thorough else 2500):
            s = rng.choice(seeds)
            t = s['main']
            for _ in range(rng.choice([1, 1, 2, 3])):
                t = mutate(rng, t)
            files = dict(s['files'])
            if files and rng.random() < 0.3:
                p = rng.choice(sorted(files))
                if files[p] is not None and not isinstance(files[p], bytes):
                    files[p] = mutate(rng, files[p])
            inputs.append(('mutant', {'main': t, 'files': files}))
        # multi-byte characters at every position of a few seed lines
        probe = ['  cache {', '    size 128M # c', '  host "a.b" {', '  route /a, /b {', '  include "x.conf"', '  port 80', '}',
                 '  level "info"', '  console true']
        for ln in probe:
            for ch in ('é', '€', '\U0001F600', ' '):
                for k in range(len(ln) + 1):
                    body = ln[:k] + ch + ln[k:]
                    closing = '\n}' if body.rstrip().endswith('{') else ''
                    inputs.append(('multibyte', {'main': 'server {\n' + body + closing + '\n}\n',
                                                 'files': {'x.conf': 'threads 2\n'}}))
        # bounded-exhaustive short lines
        alpha = ['a', '1', 'K', ' ', '"', '{', '}', '#', 'é']
        L = 5 if thorough else 4
        for k in range(L + 1):
            for tup in itertools.product(alpha, repeat=k):
                if thorough or k < 4 or rng.random() < 0.35:
                    inputs.append(('exh', {'main': 'server {\n' + ''.join(tup) + '\n}\n', 'files': {}}))
                if k <= 3:
                    t = ''.join(tup)
                    inputs.append(('exh', {'main': 'server {\nsize ' + t + '\n}\n', 'files': {}}))
                    inputs.append(('exh', {'main': t, 'files': {}}))
                    # section headers: the name is sliced / unquoted
                    inputs.append(('exh', {'main': 'server {\nhost ' + t + ' {\n}\n}\n', 'files': {}}))
                    inputs.append(('exh', {'main': 'server {\nroute ' + t + '{\n}\n}\n', 'files': {}}))
                    inputs.append(('exh', {'main': 'server {\ninclude ' + t + '\n}\n', 'files': {'a': 'k 1', '1': 'k 2', 'é': ''}}))
        # random valid UTF-8
        pool = 'ab1 \n\t{}"#KMG-+.é€\U0001F600 \r'
        for _ in range(20000 if thorough else 500):
            n = rng.choice([0, 1, 3, 10, 40, 200])
            t = ''.join(rng.choice(pool) for _ in range(n))
            if rng.random() < 0.6:
                t = 'server {\n' + t
            inputs.append(('random', {'main': t, 'files': {}}))
        # deep nesting, closed and unclosed
        depths = [10, 62, 63, 64, 65, 100, 1000, 10000, 100000] + ([50000, 200000] if thorough else [])
        for d in depths:
            for kind in ('section', 'route', 'host', 'mixed'):
                inputs.append(('nest', {'main': nest(kind, d), 'files': {}, 'note': '%s depth %d' % (kind, d)}))
            inputs.append(('nest', {'main': nest('section', d, close=False), 'files': {}, 'note': 'unclosed depth %d' % d}))
        # include chains and cycles
        inputs.append(('include', {'main': 'server {\ninclude "self.conf"\n}\n', 'files': {'self.conf': 'include "self.conf"\n'}}))
        inputs.append(('include', {'main': 'server {\ninclude "a.conf"\n}\n',
                                   'files': {'a.conf': 'include "b.conf"', 'b.conf': 'x {\ninclude "a.conf"\n}'}}))
        inputs.append(('include', {'main': 'server {\ninclude "a.conf"\ninclude "a.conf"\n}\n',
                                   'files': {'a.conf': 'include "b.conf"\ninclude "b.conf"', 'b.conf': 'include "c.conf"\ninclude "c.conf"',
                                             'c.conf': 'k 1\n'}}))
        for n in (10, 61, 62, 63, 64, 65, 200):
            files = {'f%d.conf' % k: 'include "f%d.conf"\n' % (k + 1) for k in range(n)}
            files['f%d.conf' % n] = 'threads 4\n'
            inputs.append(('include', {'main': 'server {\ninclude "f0.conf"\n}\n', 'files': files, 'note': 'chain %d' % n}))
        for n in (10, 40, 70):
            # nesting split between sections and includes
            files = {'f%d.conf' % k: 'a {\ninclude "f%d.conf"\n}\n' % (k + 1) for k in range(n)}
            files['f%d.conf' % n] = 'threads 4\n'
            inputs.append(('include', {'main': 'server {\ninclude "f0.conf"\n}\n', 'files': files, 'note': 'section+include %d' % n}))
        inputs.append(('include', {'main': 'server {\ninclude "d"\ninclude "."\n}\n', 'files': {'d': None}}))
        inputs.append(('include', {'main': 'server {\ninclude "bin"\n}\n', 'files': {'bin': b'port \xff\xfe\n'}}))
        inputs.append(('include', {'main': 'server {\ninclude ""\n}\n', 'files': {}}))
        inputs.append(('include', {'main': 'server {\n blacklist {\n file "d"\n }\n}\n', 'files': {'d': None}}))
        inputs.append(('include', {'main': 'server {\n blacklist {\n file "bin"\n }\n}\n', 'files': {'bin': b'1.2.3.4\n\xff\n'}}))
        # a long file: time and memory stay linear
        big = 'server {\n' + ''.join('  route /r%d, /s%d {\n    proxy "a:1,b:2"\n  }\n  k%d %dK # c\n' % (k, k, k, k) for k in
                                       range(20000 if thorough else 3000)) + '}\n'
        inputs.append(('big', {'main': big, 'files': {}}))

    for _, c in inputs:
        # directories that a mutated include path may hit must mean the same on both sides
        c.setdefault('files', {})
    lines = [G.case_line('c15_safe', c) for _, c in inputs]
    m, im = ctx.both(lines)
    for k, b in enumerate(im):
        if b in ('DIED', 'TIMEOUT'):
            im[k] = ctx.impl([lines[k]])[0]
    for (tag, case), line, a, b in zip(inputs, lines, m, im):
        ctx.count('conf:' + tag)
        cls, _, alloc = b.partition(' alloc=')
        ctx.count('conf:impl:' + cls)
        rec = {'part': 'conf', 'main': case['main'].encode('utf-8').hex() if len(case['main']) < 20000 else None,
               'files': {p: (None if v is None else (v if isinstance(v, bytes) else v.encode('utf-8')).hex())
                         for p, v in case['files'].items()}, 'stream': tag, 'note': case.get('note', '')}
        if rec['main'] is None:
            rec['main'] = case['main'][:2000].encode('utf-8').hex()
            rec['note'] += ' (input of %d bytes truncated in this record; regenerate from the note)' % len(case['main'])
        if cls in ('PANIC', 'DIED', 'TIMEOUT', 'NORESULT') or cls.startswith('NOHANDLER'):
            ctx.report(rec, cls, a, cls='conf-' + cls.lower(), failing_input=True,
                       what='the configuration parser %s on this input (%s %s)' % (
                           {'PANIC': 'panics', 'DIED': 'kills the process (stack overflow or abort)',
                            'TIMEOUT': 'does not terminate'}.get(cls, 'fails'), tag, case.get('note', '')))
            continue
        total = len(case['main'].encode('utf-8')) + sum(len(v if isinstance(v, bytes) else v.encode('utf-8'))
                                                        for v in case['files'].values() if v is not None)
        if alloc and int(alloc) > ALLOC_FACTOR * total * (1 if tag != 'include' else MAX_DEPTH) + ALLOC_SLACK * (MAX_DEPTH if tag == 'include' else 1):
            ctx.report(rec, 'alloc=%s for %d input bytes' % (alloc, total), 'allocation linear in the bytes supplied',
                       cls='conf-alloc', failing_input=True, what='configuration parser allocation is not bounded by its input')
            continue
        if a.startswith('CRASH') or a == 'FUEL':
            ctx.report(rec, 'model=' + a, 'impl=' + cls, cls='conf-model-crash', failing_input=False,
                       what='the model reaches a crash site / runs out of fuel although the safety theorem excludes it')
        elif cls != a:
            ctx.report(rec, cls, a, cls='conf-class', failing_input=False,
                       what='outcome class differs from the model (no crash observed)')
        if tag in ('mutant', 'multibyte', 'nest', 'include') or (tag == 'prefix' and case['main']):
            ctx.mark_nontrivial(line if len(line) < 5000 else hash(line))
    j = len(lines) // 3
    ctx.sample({'part': 'conf', 'stream': inputs[j][0], 'file': inputs[j][1]['main'][:200], 'impl': im[j]})
