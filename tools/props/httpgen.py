"""Generators and reference semantics for HTTP messages, shared by C01/C02/C03/C07/C09.
All randomness comes from the rng passed in."""
from hv import hx

METHODS = ['GET', 'POST', 'PUT', 'DELETE', 'OPTIONS']
KNOWN = ['Accept', 'Accept-Charset', 'Accept-Encoding', 'Accept-Language', 'Authorization', 'Cache-Control', 'Connection',
         'Content-Encoding', 'Content-Type', 'Date', 'Expect', 'Forwarded', 'From', 'Host', 'Origin', 'Pragma',
         'Referer', 'Upgrade', 'User-Agent', 'Via', 'Warning', 'Age', 'Allow', 'ETag', 'Expires', 'Last-Modified', 'Link',
         'Location', 'Server', 'Set-Cookie', 'Access-Control-Allow-Origin', 'Content-Language', 'Content-Location',
         'Content-Disposition', 'Access-Control-Request-Method', 'Access-Control-Request-Headers',
         'Access-Control-Allow-Headers', 'Access-Control-Allow-Methods']
CUSTOM = ['X-Custom', 'X-A', 'x-b', 'X-Request-Id', 'Dnt', 'Sec-WebSocket-Key', 'Sec-Fetch-Mode', 'Z', 'a1!#$%&*+.^_`|~-']
VALUE_ATOMS = ['a', 'text/html', 'x y', 'keep-alive', 'close', 'é', '日本', '\U0001F600', 'a=b; c=d', '"q"', ':', ',', '*/*',
               'gzip, deflate', '0', '42', 'W/"abc"', 'a\tb', '%20', 'Ü-x', 'v:1:2', ' x', 'x　y']
PATH_SEGS = ['a', 'index.html', 'static', 'é', '%20', '..', '.', 'a b'.replace(' ', '+'), 'x*y', '~u', 'q;p', '日']


def rand_case(rng, s):
    r = rng.random()
    if r < 0.5:
        return s
    if r < 0.65:
        return s.lower()
    if r < 0.8:
        return s.upper()
    return ''.join(c.upper() if rng.random() < 0.5 else c.lower() for c in s)


def rand_value(rng):
    n = rng.choice([1, 1, 1, 2, 3])
    v = ' '.join(rng.choice(VALUE_ATOMS) for _ in range(n))
    return v.strip()


def rand_ipv4(rng):
    return '.'.join(str(rng.choice([0, 1, 9, 10, 99, 100, 127, 199, 200, 249, 250, 255, rng.randint(0, 255)])) for _ in range(4))


BAD_IPS = ['unknown', '', '1.2.3', '256.1.1.1', '01.2.3.4', '1.2.3.4.5', 'a.b.c.d', '1.2.3.-4', '1..2.3', ' ', '1.2.3.4x',
           '+1.2.3.4', '1.2.3.4:80', '999.1.1.1', '1.2.3.04', '0x1.2.3.4', '١.2.3.4']


def rand_xff(rng):
    """returns (header value, list of (text, valid?)) — entries separated by ',' with random spacing"""
    n = rng.choice([1, 1, 2, 2, 3, 4])
    entries = []
    for _ in range(n):
        if rng.random() < 0.75:
            entries.append((rand_ipv4(rng), True))
        else:
            entries.append((rng.choice(BAD_IPS), False))
    parts = []
    for i, (t, _) in enumerate(entries):
        pre = rng.choice(['', '', ' ', ' ', '  ', '\t']) if i > 0 else rng.choice(['', '', ' '])
        post = rng.choice(['', '', '', ' '])
        parts.append(pre + t + post)
    value = ','.join(parts).strip()
    return value, entries


def rand_request(rng, body_max=200, nheaders_max=12, with_xff=None, with_cookie=None):
    g = {}
    g['method'] = rng.choice(METHODS)
    depth = rng.choice([0, 1, 1, 2, 3])
    g['path'] = '/' + '/'.join(rng.choice(PATH_SEGS) for _ in range(depth))
    g['query'] = rng.choice([None, None, 'x=1', 'a=b&c=d', 'q=é', 'x?y', '', 'k=v%20w'])
    g['version'] = rng.choice(['HTTP/1.1', 'HTTP/1.1', 'HTTP/1.0'])
    hs = []
    nh = rng.choice([0, 1, 2, 3, 5, rng.randint(0, nheaders_max)])
    pool = []
    for _ in range(nh):
        if pool and rng.random() < 0.3:
            name = rand_case(rng, rng.choice(pool))          # repeated name
        else:
            name = rng.choice(KNOWN) if rng.random() < 0.7 else rng.choice(CUSTOM)
            pool.append(name)
            name = rand_case(rng, name)
        hs.append((name, rand_value(rng)))
    if with_cookie if with_cookie is not None else rng.random() < 0.2:
        ck = rng.choice(['a=b', 'a=b; c=d', 'k=v;x=y', ' s = t ', 'novalue', 'a=b=c', '=x', 'a=', 'a=b;', 'é=ü; z=1'])
        hs.insert(rng.randint(0, len(hs)), (rand_case(rng, 'Cookie'), ck.strip()))
    g['xff'] = None
    if with_xff if with_xff is not None else rng.random() < 0.3:
        value, entries = rand_xff(rng)
        if value:
            hs.insert(rng.randint(0, len(hs)), (rand_case(rng, 'X-Forwarded-For'), value))
            g['xff'] = entries
    body = None
    if rng.random() < 0.45:
        n = rng.choice([0, 1, 2, 10, rng.randint(0, body_max)])
        body = bytes(rng.getrandbits(8) for _ in range(n))
        hs.insert(rng.randint(0, len(hs)), (rand_case(rng, 'Content-Length'), str(n)))
    g['headers'] = hs
    g['body'] = body
    g['sep'] = [rng.choice([': ', ': ', ':', ':  ', ':\t']) for _ in hs]
    g['peer_ip'] = rand_ipv4(rng)
    g['port'] = rng.choice([80, 1, 65535, rng.randint(1, 65535)])
    return g


def render_request(g):
    line = g['method'] + ' ' + g['path'] + (('?' + g['query']) if g['query'] is not None else '') + ' ' + g['version'] + '\r\n'
    out = line.encode('utf-8')
    for (n, v), sep in zip(g['headers'], g['sep']):
        out += (n + sep + v + '\r\n').encode('utf-8')
    out += b'\r\n'
    if g['body'] is not None:
        out += g['body']
    return out


def denote_request(g):
    """What the request means, independently of the implementation (the property's reading)."""
    d = {}
    d['m'] = METHODS.index(g['method'])
    d['uri'] = g['path'].encode('utf-8')
    d['q'] = (g['query'] or '').encode('utf-8')
    d['v'] = g['version'].encode('utf-8')
    d['h'] = [(n.lower().encode('utf-8'), v.encode('utf-8')) for n, v in g['headers']]
    d['c'] = g['body']
    # first X-Forwarded-For header decides
    first_xff = None
    for n, v in g['headers']:
        if n.lower() == 'x-forwarded-for':
            first_xff = v
            break
    valid = [t for t, ok in (g['xff'] or []) if ok] if first_xff is not None else []
    if valid:
        d['origin'] = valid[-1]
        d['proxies'] = valid[:-1] + [g['peer_ip']]
    else:
        d['origin'] = g['peer_ip']
        d['proxies'] = []
    d['port'] = g['port']
    return d


def parse_show(line):
    """Parse the canonical 'ok m=.. uri=.. ...' line printed by both runners into a dict (or {'err': cls})."""
    if line.startswith('err:'):
        return {'err': line[4:]}
    if not line.startswith('ok '):
        return {'other': line}
    d = {}
    for tok in line[3:].split(' '):
        k, _, v = tok.partition('=')
        d[k] = v
    out = {'m': int(d['m']), 'uri': bytes.fromhex(d['uri']), 'q': bytes.fromhex(d['q']), 'v': bytes.fromhex(d['v'])}
    hs = []
    inner = d['h'][1:-1]
    if inner:
        for kv in inner.split(','):
            k, v = kv.split(':')
            hs.append((bytes.fromhex(k), bytes.fromhex(v)))
    out['h'] = hs
    out['c'] = None if d['c'] == 'none' else bytes.fromhex(d['c'][1:])
    out['origin'] = bytes.fromhex(d['origin']).decode()
    pr = d['proxies'][1:-1]
    out['proxies'] = [bytes.fromhex(x).decode() for x in pr.split(',')] if pr else []
    out['port'] = int(d['port'])
    if 'consumed' in d:
        out['consumed'] = int(d['consumed'])
    return out


def request_matches(den, got):
    """Oracle: does a parsed request equal what the bytes denote? returns None or a description of the difference."""
    if 'err' in got or 'other' in got:
        return 'rejected/failed: %r' % (got,)
    for k in ('m', 'uri', 'q', 'v', 'c', 'origin', 'proxies', 'port'):
        if den[k] != got[k]:
            return '%s: expected %r got %r' % (k, den[k], got[k])
    gh = [(n.lower(), v) for n, v in got['h']]
    if gh != den['h']:
        return 'headers: expected %r got %r' % (den['h'], gh)
    return None


def same_request(a, b):
    """Equality of two parsed requests up to the order of differently-named headers (same-name order matters)."""
    if ('err' in a) or ('err' in b) or ('other' in a) or ('other' in b):
        return a == b
    for k in ('m', 'uri', 'q', 'v', 'c', 'origin', 'proxies', 'port'):
        if a[k] != b[k]:
            return False
    names = set(n.lower() for n, _ in a['h']) | set(n.lower() for n, _ in b['h'])
    for n in names:
        if [v for k, v in a['h'] if k.lower() == n] != [v for k, v in b['h'] if k.lower() == n]:
            return False
    return True


def chunk_plans(rng, data, every_split=False, nrandom=2):
    """Segmentations of data into reads: all-at-once, byte-wise, single splits, random."""
    plans = [[data]] if data else [[]]
    if len(data) <= 400:
        plans.append([data[i:i + 1] for i in range(len(data))])
    if every_split:
        for i in range(1, len(data)):
            plans.append([data[:i], data[i:]])
    else:
        for _ in range(2):
            if len(data) > 1:
                i = rng.randint(1, len(data) - 1)
                plans.append([data[:i], data[i:]])
    for _ in range(nrandom):
        cs = []
        i = 0
        while i < len(data):
            n = rng.choice([1, 1, 2, 3, 5, 8, 13, 64, 200, 1000, 9000])
            cs.append(data[i:i + n])
            i += n
        plans.append(cs)
    return plans


def plan_arg(plan):
    return ','.join(hx(c) for c in plan) if plan else '-'


# ---- malformed stream (C03) ----
def mutate(rng, data):
    """structure-aware single mutation of a valid message"""
    b = bytearray(data)
    r = rng.random()
    if not b:
        return bytes(b)
    if r < 0.15:                      # truncate
        return bytes(b[:rng.randint(0, len(b))])
    if r < 0.3:                       # drop a CR / LF / colon / space
        idx = [i for i, x in enumerate(b) if x in (13, 10, 58, 32)]
        if idx:
            del b[rng.choice(idx)]
        return bytes(b)
    if r < 0.4:                       # double one
        idx = [i for i, x in enumerate(b) if x in (13, 10, 58, 32)]
        if idx:
            i = rng.choice(idx)
            b.insert(i, b[i])
        return bytes(b)
    if r < 0.55:                      # multi-byte / invalid UTF-8 at a random position
        i = rng.randint(0, len(b))
        ins = rng.choice(['€'.encode(), 'é'.encode(), '\U0001F600'.encode(), b'\xff', b'\xc3', b'\xe2\x82', b'\x80',
                          b'\xed\xa0\x80', b'\xc0\xae', b'\x00'])
        return bytes(b[:i] + ins + b[i:])
    if r < 0.7:                       # replace a number by a boundary / huge value
        import re
        ms = list(re.finditer(rb'\d+', bytes(b)))
        if ms:
            m = rng.choice(ms)
            v = rng.choice([b'0', b'1', b'-1', b'+5', b'65535', b'65536', b'4294967296', b'18446744073709551615',
                            b'18446744073709551616', b'99999999999999999999999', b'1e9', b'0x10', b' 7', b'007', b''])
            return bytes(b[:m.start()] + v + b[m.end():])
        return bytes(b)
    if r < 0.85:                      # flip a byte
        i = rng.randrange(len(b))
        b[i] = rng.getrandbits(8)
        return bytes(b)
    i = rng.randrange(len(b))         # delete a span
    j = min(len(b), i + rng.randint(1, 6))
    return bytes(b[:i] + b[j:])


# ---- responses ----
STATUS = [100, 101, 200, 201, 202, 203, 204, 205, 206, 300, 301, 302, 303, 304, 305, 307, 400, 401, 403, 404, 405, 406, 407,
          408, 409, 410, 411, 412, 413, 414, 415, 416, 417, 500, 501, 502, 503, 504, 505]
PHRASES = {100: 'Continue', 101: 'Switching Protocols', 200: 'OK', 201: 'Created', 202: 'Accepted',
           203: 'Non-Authoritative Information', 204: 'No Content', 205: 'Reset Content', 206: 'Partial Content',
           300: 'Multiple Choices', 301: 'Moved Permanently', 302: 'Found', 303: 'See Other', 304: 'Not Modified',
           305: 'Use Proxy', 307: 'Temporary Redirect', 400: 'Bad Request', 401: 'Unauthorized', 403: 'Forbidden',
           404: 'Not Found', 405: 'Method Not Allowed', 406: 'Not Acceptable', 407: 'Proxy Authentication Required',
           408: 'Request Timeout', 409: 'Conflict', 410: 'Gone', 411: 'Length Required', 412: 'Precondition Failed',
           413: 'Payload Too Large', 414: 'URI Too Long', 415: 'Unsupported Media Type',
           416: 'Range Not Satisfiable', 417: 'Expectation Failed', 500: 'Internal Server Error',
           501: 'Not Implemented', 502: 'Bad Gateway', 503: 'Service Unavailable', 504: 'Gateway Timeout',
           505: 'HTTP Version Not Supported'}


def rand_resp_headers(rng, n_max=10):
    hs = []
    pool = []
    for _ in range(rng.choice([0, 1, 2, 4, rng.randint(0, n_max)])):
        if pool and rng.random() < 0.3:
            name = rand_case(rng, rng.choice(pool))
        else:
            name = rng.choice([k for k in KNOWN if k not in ('Content-Length', 'Transfer-Encoding')] + CUSTOM)
            pool.append(name)
            name = rand_case(rng, name)
        hs.append((name, rand_value(rng)))
    return hs


def chunked_encode(rng, body, exhaustive_split=None):
    """chunked transfer coding of body under a split (list of chunk sizes, all > 0), hex sizes in either case"""
    if exhaustive_split is None:
        sizes = []
        left = len(body)
        while left > 0:
            n = rng.randint(1, max(1, min(left, rng.choice([1, 2, 5, 16, 255, 256, 4096, 70000]))))
            sizes.append(n)
            left -= n
    else:
        sizes = exhaustive_split
    out = b''
    i = 0
    for n in sizes:
        hs = '%x' % n
        if rng.random() < 0.5:
            hs = hs.upper()
        out += hs.encode() + b'\r\n' + body[i:i + n] + b'\r\n'
        i += n
    out += b'0\r\n\r\n'
    return out, sizes


def compositions(n):
    """all ways to write n as an ordered sum of positive integers"""
    if n == 0:
        return [[]]
    out = []
    for first in range(1, n + 1):
        for rest in compositions(n - first):
            out.append([first] + rest)
    return out


def parse_show_resp(line):
    if line.startswith('err:'):
        return {'err': line[4:]}
    if not line.startswith('ok '):
        return {'other': line}
    d = {}
    for tok in line[3:].split(' '):
        k, _, v = tok.partition('=')
        d[k] = v
    hs = []
    inner = d['h'][1:-1]
    if inner:
        for kv in inner.split(','):
            k, v = kv.split(':')
            hs.append((bytes.fromhex(k), bytes.fromhex(v)))
    return {'v': bytes.fromhex(d['v']), 'code': int(d['code']), 'h': hs, 'b': bytes.fromhex(d['b'])}
