#!/bin/bash
# usage: coqshow.sh <file.v relative to coq/> <line>  — prints the goal state just before <line>
cd "${HV_ROOT:-/verif}/coq"
f=$1; n=$2
tmp=theories/_Show_tmp.v
head -n $((n-1)) $f > $tmp
echo "Show. Abort." >> $tmp
timeout 300 coqc -Q theories Hv -w -notation-overridden $tmp 2>&1 | tail -${3:-60}
rm -f theories/_Show_tmp.* theories/._Show_tmp.aux
