#!/usr/bin/env python3
"""Mutation campaign: measures which of the property checks notice small syntactic changes to the anchored source files.

  mutate.py plan <plan.json> [per_file] [seed]     list of single-token mutants of the files named in properties.jsonl
  mutate.py work <plan.json> <workspace> <i> <n>   run every n-th mutant (offset i) in /work/<workspace>, append to
                                                   /verif/work/mutation/results.jsonl
  mutate.py report                                 summary table of results.jsonl

A mutant counts only if the workspace still builds and the repository's own test suite still passes with it (otherwise
the ordinary tests already notice it). For the survivors the quick checks of every property anchored in the mutated file
are run; outcome per check: 'violation' (VIOLATION line with a failing input), 'violation-nfi' (VIOLATION ... no-failing-input-found),
'timeout', or 'quiet' (exit 0)."""
import json
import os
import random
import re
import subprocess
import sys
import time

V = '/verif'
OUT = V + '/work/mutation'

OPS = [
    (r' <= ', ' < '), (r' < ', ' <= '), (r' >= ', ' > '), (r' > ', ' >= '),
    (r' == ', ' != '), (r' != ', ' == '), (r' && ', ' || '), (r' \|\| ', ' && '),
    (r' \+ 1\b', ' + 2'), (r' - 1\b', ' - 2'), (r' \+ 1\b', ''), (r' - 1\b', ''),
    (r'\btrue\b', 'false'), (r'\bfalse\b', 'true'),
    (r'\.is_some\(\)', '.is_none()'), (r'\.is_none\(\)', '.is_some()'), (r'\.is_ok\(\)', '.is_err()'), (r'\.is_err\(\)', '.is_ok()'),
    (r'\.min\(', '.max('), (r'\.max\(', '.min('), (r'\bcontinue;', 'break;'),
    (r'\.starts_with\(', '.ends_with('), (r'\.ends_with\(', '.starts_with('),
    (r'\.strip_prefix\(', '.strip_suffix('), (r'\.strip_suffix\(', '.strip_prefix('),
    (r'\.trim_end\(\)', '.trim_start()'), (r'\.trim_start\(\)', '.trim_end()'), (r'\.trim\(\)', ''),
    (r'\.pop_front\(\)', '.pop_back()'), (r'\.push_back\(', '.push_front('),
    (r'\.first\(\)', '.last()'), (r'\.last\(\)', '.first()'),
    (r'\.split_once\(', '.rsplit_once('), (r'\.find\(', '.rfind('),
    (r'\.to_ascii_lowercase\(\)', '.to_ascii_uppercase()'), (r'\.to_lowercase\(\)', '.to_uppercase()'),
    (r'\.saturating_sub\(', '.wrapping_sub('), (r'\.checked_mul\(', '.checked_add('),
    # round 2
    (r'if !', 'if '), (r' \+ ', ' - '), (r' - ', ' + '), (r' \* ', ' / '), (r'\.\.=', '..'), (r' << ', ' >> '), (r' >> ', ' << '),
    (r' & ', ' | '), (r' \| ', ' & '), (r'\.push\(', '.insert(0, '), (r'\.skip\(1\)', '.skip(0)'), (r'\.take\(', '.skip('),
    (r'\.rev\(\)', ''), (r'\bbreak;', 'continue;'), (r'\.to_string\(\)\.to_lowercase\(\)', '.to_string()'),
    (r'\.unwrap_or_default\(\)', '.unwrap()'), (r'\.is_empty\(\)', '.len() == 1'),
    (r' >= ', ' == '), (r' <= ', ' == '), (r'\.or_else\(', '.and_then('), (r'\.any\(', '.all('), (r'\.all\(', '.any('),
]
NUM = re.compile(r'(?<![\w."\'])(\d{1,5})(?![\w."\'])')


def code_part(line):
    """the part of the line before a // comment (naive about strings containing //)"""
    i = line.find('//')
    return line if i < 0 else line[:i]


def excluded_lines(lines):
    """indices inside #[cfg(humphrey_verif)] items, #[cfg(test)] modules, and doc/comment lines"""
    ex = set()
    i = 0
    while i < len(lines):
        l = lines[i]
        st = l.strip()
        if st.startswith('//') or st.startswith('#[') and 'cfg(' not in st or st.startswith('#!['):
            ex.add(i)
        if 'cfg(humphrey_verif)' in l or 'cfg(test)' in l or 'cfg(feature = "tls")' in l or 'cfg(feature = "plugins")' in l:
            ind = len(l) - len(l.lstrip())
            ex.add(i)
            j = i + 1
            depth = 0
            while j < len(lines):
                ex.add(j)
                depth += lines[j].count('{') - lines[j].count('}')
                s = lines[j].rstrip()
                if depth <= 0 and (s.endswith(';') or s.endswith('}') or s.endswith(',')) and (len(lines[j]) - len(lines[j].lstrip())) <= ind + 4:
                    break
                j += 1
            i = j
        i += 1
    return ex


def mutants_of(path, rel, props, rng, per_file):
    src = open(path, encoding='utf-8').read().split('\n')
    ex = excluded_lines(src)
    cands = []
    for i, l in enumerate(src):
        if i in ex or 'verif' in l:
            continue
        code = code_part(l)
        if not code.strip() or code.strip().startswith('use ') or code.strip().startswith('pub use '):
            continue
        # blank out string literals so that operators inside them are not touched
        masked = re.sub(r'"(?:[^"\\]|\\.)*"', lambda m: '"' + '_' * (len(m.group(0)) - 2) + '"', code)
        for pat, rep in OPS:
            for m in re.finditer(pat, masked):
                new = code[:m.start()] + rep + code[m.end():] + l[len(code):]
                cands.append((i, pat, l, new))
        for m in NUM.finditer(masked):
            n = int(m.group(1))
            new = code[:m.start(1)] + str(n + 1) + code[m.end(1):] + l[len(code):]
            cands.append((i, 'num+1', l, new))
            if n > 0:
                new = code[:m.start(1)] + str(n - 1) + code[m.end(1):] + l[len(code):]
                cands.append((i, 'num-1', l, new))
    rng.shuffle(cands)
    out, seen_lines = [], {}
    for i, op, before, after in cands:
        if seen_lines.get(i, 0) >= 1:
            continue
        seen_lines[i] = seen_lines.get(i, 0) + 1
        out.append({'file': rel, 'line': i + 1, 'op': op, 'before': before, 'after': after, 'props': props})
        if len(out) >= per_file:
            break
    return out


def plan(out, per_file=4, seed=1):
    rng = random.Random(seed)
    files = {}
    for l in open(V + '/properties.jsonl'):
        d = json.loads(l)
        for f in d['anchors']['files']:
            files.setdefault(f, []).append(d['id'])
    ms = []
    for rel, props in sorted(files.items()):
        p = '/repo/' + rel
        if not os.path.exists(p):
            continue
        ms += mutants_of(p, rel, props, rng, per_file)
    for k, m in enumerate(ms):
        m['id'] = 'M%04d' % k
    json.dump(ms, open(out, 'w'), indent=0)
    print('planned', len(ms), 'mutants over', len(files), 'files')


# round 4: helper modules no property is anchored in, with the properties whose mechanisms run through them
HELPERS = {
    'humphrey/src/stream.rs': ['C01', 'C02', 'C09', 'C11', 'C20'],
    'humphrey/src/tokio/stream.rs': ['C01', 'C02'],
    'humphrey/src/tokio/handlers.rs': ['C06'],
    'humphrey/src/handler_traits.rs': ['C01', 'C04'],
    'humphrey/src/tokio/handler_traits.rs': ['C01', 'C04'],
    'humphrey-ws/src/ping.rs': ['C12'],
    'humphrey-ws/src/util/restion.rs': ['C10', 'C11'],
    'humphrey/src/monitor/event.rs': ['C01', 'C08'],
    'humphrey-server/src/server/logger.rs': ['C15', 'C19'],
}


def plan_helpers(out, per_file=12, seed=4):
    rng = random.Random(seed)
    ms = []
    for rel, props in sorted(HELPERS.items()):
        p = '/repo/' + rel
        if os.path.exists(p):
            ms += mutants_of(p, rel, props, rng, per_file)
    for k, m in enumerate(ms):
        m['id'] = 'H%04d' % k
    json.dump(ms, open(out, 'w'), indent=0)
    print('planned', len(ms), 'mutants over', len(HELPERS), 'helper files')


def sh(cmd, cwd, env=None, timeout=900):
    e = dict(os.environ)
    e.update(env or {})
    t0 = time.time()
    try:
        p = subprocess.run(cmd, shell=True, cwd=cwd, env=e, stdout=subprocess.PIPE, stderr=subprocess.STDOUT, timeout=timeout)
        return p.returncode, p.stdout.decode('utf-8', 'replace'), time.time() - t0
    except subprocess.TimeoutExpired as ex:
        subprocess.run("pkill -P %d" % os.getpid(), shell=True)
        return 124, (ex.stdout or b'').decode('utf-8', 'replace'), time.time() - t0


def work(planfile, ws, i, n):
    ms = json.load(open(planfile))
    repo = '/work/%s/repo' % ws
    verif = '/work/%s/verif' % ws
    env = {'HV_ROOT': verif, 'HV_REPO': repo, 'CARGO_NET_OFFLINE': 'true'}
    os.makedirs(OUT, exist_ok=True)
    done = set()
    if os.path.exists(OUT + '/results.jsonl'):
        done = {json.loads(l)['id'] for l in open(OUT + '/results.jsonl') if l.strip()}
    for m in ms[i::n]:
        if m['id'] in done:
            continue
        path = repo + '/' + m['file']
        src = open(path, encoding='utf-8').read().split('\n')
        res = dict(m)
        if src[m['line'] - 1] != m['before']:
            res['outcome'] = 'stale-plan'
        else:
            src[m['line'] - 1] = m['after']
            open(path, 'w', encoding='utf-8').write('\n'.join(src))
            rc, out, dt = sh('cargo build --workspace --offline 2>&1 | tail -5', repo, timeout=900)
            if rc != 0 or 'error' in out and 'could not compile' in out:
                res['outcome'] = 'no-compile'
            else:
                rc, out, dt = sh('timeout 900 %s/tools/baseline.sh' % verif, repo, env, timeout=1000)
                last = out.strip().split('\n')[-1] if out.strip() else ''
                res['baseline'] = last
                if rc != 0:
                    res['outcome'] = 'killed-by-tests'
                else:
                    res['checks'] = {}
                    COST = {'C05': 1, 'C19': 1, 'C04': 2, 'C06': 3, 'C02': 3, 'C15': 3, 'C09': 3, 'C17': 4, 'C03': 4, 'C14': 4, 'C12': 4,
                            'C08': 5, 'C07': 5, 'C10': 5, 'C20': 6, 'C13': 6, 'C16': 6, 'C01': 7, 'C11': 7, 'C18': 9}
                    related = {'humphrey-ws/src/handler.rs': ['C12'], 'humphrey/src/route.rs': ['C01'], 'humphrey/src/http/headers.rs': ['C01', 'C09'],
                               'humphrey/src/http/response.rs': ['C02'], 'humphrey/src/http/request.rs': ['C09', 'C19'],
                               'humphrey/src/krauss.rs': ['C15', 'C06'], 'humphrey/src/http/status.rs': ['C01', 'C09'],
                               'humphrey/src/http/address.rs': ['C01'], 'humphrey-ws/src/util/sha1.rs': ['C11'],
                               'humphrey-ws/src/util/base64.rs': ['C11'], 'humphrey/src/percent.rs': ['C09'],
                               'humphrey/src/http/date.rs': ['C01'], 'humphrey/src/http/mime.rs': ['C04'],
                               'humphrey-server/src/server/server.rs': ['C04', 'C06'], 'humphrey-server/src/config/config.rs': ['C04']}
                    todo = sorted(set(m['props']) | set(related.get(m['file'], [])), key=lambda q: COST.get(q, 5))
                    for p in todo:
                        if any(c['outcome'] != 'quiet' for c in res['checks'].values()):
                            break
                        rc, out, dt = sh('timeout 1200 ./vp %s quick' % p, verif, env, timeout=1300)
                        viol = [l for l in out.split('\n') if l.startswith('VIOLATION')]
                        if rc == 124 or rc == 137:
                            o = 'timeout'
                        elif rc == 0 and not viol:
                            o = 'quiet'
                        elif any('no-failing-input-found' not in l for l in viol):
                            o = 'violation'
                        elif viol:
                            o = 'violation-nfi'
                        else:
                            o = 'error-exit-%d' % rc
                        res['checks'][p] = {'outcome': o, 'seconds': round(dt), 'summary': out.strip().split('\n')[-1][:200]}
                    outs = [c['outcome'] for c in res['checks'].values()]
                    res['outcome'] = 'caught' if any(o != 'quiet' for o in outs) else 'missed'
            subprocess.run(['git', '-C', repo, 'checkout', '--', '.'])
        with open(OUT + '/results.jsonl', 'a') as f:
            f.write(json.dumps(res) + '\n')
        print(ws, res['id'], res['file'], res['line'], res['op'], '->', res['outcome'], flush=True)


def report():
    rs = [json.loads(l) for l in open(OUT + '/results.jsonl') if l.strip()]
    by = {}
    for r in rs:
        by.setdefault(r['outcome'], []).append(r)
    print({k: len(v) for k, v in by.items()})
    for r in by.get('missed', []):
        print('MISSED', r['id'], r['file'], r['line'], r['op'], '|', r['before'].strip(), '=>', r['after'].strip(), r['props'])


if __name__ == '__main__':
    a = sys.argv[1:]
    if a[0] == 'plan-helpers':
        plan_helpers(a[1], int(a[2]) if len(a) > 2 else 12, int(a[3]) if len(a) > 3 else 4)
    elif a[0] == 'plan':
        plan(a[1], int(a[2]) if len(a) > 2 else 4, int(a[3]) if len(a) > 3 else 1)
    elif a[0] == 'work':
        work(a[1], a[2], int(a[3]), int(a[4]))
    elif a[0] == 'report':
        report()
