#!/bin/bash
# evaluate every patch under /tmp/rf/*/patches that has no result yet (sequential: the checks share /repo).
# Pauses between patches while /verif/work/rf_pause exists (so that /repo can be used for something else).
while true; do
  DONE=1
  for P in /tmp/rf/*/patches/C??_?.diff; do
    N=$(basename $P .diff)
    [ -f /verif/refactors/$N/result.txt ] && continue
    [ -f "${P%.diff}.txt" ] || continue
    while [ -f /verif/work/rf_pause ]; do sleep 5; done
    DONE=0
    touch /verif/work/rf_busy
    /verif/tools/refactor_eval.sh $P $N
    rm -f /verif/work/rf_busy
  done
  [ $DONE = 1 ] && [ -f /verif/work/rf_last ] && break
  sleep 20
done
