#!/bin/bash
# evaluate every patch under /tmp/rf/*/patches that has no result yet (sequential: the checks share /repo)
for P in /tmp/rf/*/patches/C??_?.diff; do
  N=$(basename $P .diff)
  [ -f /verif/refactors/$N/result.txt ] && continue
  [ -f "${P%.diff}.txt" ] || continue      # the agent writes the .txt after the .diff: wait until both are there
  /verif/tools/refactor_eval.sh $P $N
done
