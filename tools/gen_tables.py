#!/usr/bin/env python3
"""Translator for the data tables: regenerates coq/theories/Tables<X>.v from the Rust sources on every run.
Each generator lives in tools/tables/<name>.py and exposes generate(repo) -> {coq_file_name: content}. A file is rewritten
only when its content changes (so make does not rebuild needlessly). Any generator that cannot find what it expects raises,
which fails the run loudly."""
import importlib
import os
import sys

HERE = os.path.dirname(os.path.abspath(__file__))
V = os.environ.get('HV_ROOT') or os.path.dirname(HERE)
REPO = os.environ.get('HV_REPO', '/repo')
sys.path.insert(0, HERE)


def main():
    rc = 0
    for f in sorted(os.listdir(HERE + '/tables')):
        if not f.endswith('.py') or f.startswith('_'):
            continue
        mod = importlib.import_module('tables.' + f[:-3])
        try:
            outs = mod.generate(REPO)
        except Exception as e:  # noqa: BLE001
            print('gen_tables: generator %s failed: %r' % (f, e))
            rc = 1
            continue
        for name, content in outs.items():
            path = os.path.join(V, 'coq', 'theories', name)
            old = open(path).read() if os.path.exists(path) else None
            if old != content:
                open(path, 'w').write(content)
                print('gen_tables: wrote', name)
    return rc


if __name__ == '__main__':
    sys.exit(main())
