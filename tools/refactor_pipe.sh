#!/bin/bash
# usage, inside `vp run --with-repo` (own copies of /verif and /repo; /repo itself stays free):
#   tools/refactor_pipe.sh <patch.diff> ...
# evaluates each behaviour-preserving rewrite with tools/refactor_eval.sh and copies the result to /verif/refactors/<name>/
for P in "$@"; do
  N=$(basename $P .diff)
  [ -f /verif/refactors/$N/result.txt ] && continue
  RF_REPO=$VP_RUN_REPO RF_VERIF=$PWD tools/refactor_eval.sh $P $N
  mkdir -p /verif/refactors/$N; cp -r refactors/$N/. /verif/refactors/$N/
done
