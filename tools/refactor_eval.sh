#!/bin/bash
# usage: refactor_eval.sh <patch.diff> <name> [extra property ids]
# A behaviour-preserving rewrite of /repo (written by a sub-agent that saw only property texts): apply it to /repo, run the
# quick check of every property anchored in a file it touches (plus the property it was written for and any extra ids),
# restore /repo and the clean-tree evidence. Results in /verif/refactors/<name>/. A VIOLATION here is a false alarm to study
# (or evidence that the rewrite is not behaviour-preserving after all).
set -u
P=$1; NAME=$2; shift 2
REPO=${RF_REPO:-/repo}; VERIF=${RF_VERIF:-/verif}
OUT=$VERIF/refactors/$NAME
mkdir -p $OUT
cp $P $OUT/patch.diff
[ -f "${P%.diff}.txt" ] && cp "${P%.diff}.txt" $OUT/why.txt
cd $REPO
if [ -n "$(git status --short)" ]; then echo "/repo not clean"; exit 4; fi
if ! git apply --check $OUT/patch.diff 2>/dev/null; then echo "$NAME: PATCH DOES NOT APPLY" | tee $OUT/result.txt; exit 3; fi
git apply $OUT/patch.diff
NEWFILES=$(git status --short | grep "^??" | grep -v target | wc -l)
IDS=$(python3 - "$@" <<PY
import sys, json, subprocess
sys.path.insert(0, '$VERIF/tools')
import hv
changed = subprocess.run(['git', '-C', '$REPO', 'diff', '--name-only'], capture_output=True, text=True).stdout.split()
af = hv.anchored_files()
ids = set(sys.argv[1:])
ids.add('$NAME'.split('_')[0])
for f in changed:
    ids.update(af.get(f, []))
print(' '.join(sorted(i for i in ids if i.startswith('C'))))
PY
)
mkdir -p $VERIF/work; EVBAK=$(mktemp -d $VERIF/work/evbak.XXXXXX); cp $VERIF/evidence/*.json $EVBAK/ 2>/dev/null
RES=""
for C in $IDS; do
  ( cd $VERIF && timeout 3000 ./vp $C quick ) > $OUT/check_$C.log 2>&1; R=$?
  V=$(grep -c '^VIOLATION' $OUT/check_$C.log)
  echo "$NAME check $C exit=$R violations=$V: $(tail -1 $OUT/check_$C.log | cut -c1-160)"
  RES="$RES $C=$R"
done
cp $EVBAK/*.json $VERIF/evidence/ 2>/dev/null; rm -rf $EVBAK
git -C $REPO checkout -- . ; git -C $REPO clean -fdq -e target ; git -C $REPO status --short | head -3
echo "checks:$RES" | tee $OUT/result.txt
