#!/bin/bash
# Runs the repository's own test suite with the verification guard OFF (plain cargo test, no RUSTFLAGS).
# Expected: 99 passed, 1 failed (tests::client::test_url_parser needs DNS; it is in BASELINE.json's always_fail).
cd "${HV_REPO:-/repo}" || exit 2
unset RUSTFLAGS
out=$(CARGO_NET_OFFLINE=true cargo test --workspace --no-fail-fast --offline 2>&1)
echo "$out" | grep -E "^test .* (FAILED|failed)$|^test result"
pass=$(echo "$out" | grep -E "^test result" | sed -E 's/.* ([0-9]+) passed.*/\1/' | paste -sd+ | bc)
fail=$(echo "$out" | grep -E "^test .* FAILED$" | grep -v "tests::client::test_url_parser" | wc -l)
echo "passed=$pass unexpected_failures=$fail"
[ "$pass" -ge 99 ] && [ "$fail" -eq 0 ]
