#!/usr/bin/env python3
"""usage: refactor_prompt.py <group name> <ID> [<ID> ...]  -> writes /tmp/rf/prompt_<group>.txt
The prompt given to a fresh sub-agent that writes BEHAVIOUR-PRESERVING rewrites of the code a property is anchored in
(to measure false alarms: a check must stay quiet on code where the property still holds). The agent gets the property
texts and its own scratch worktree /tmp/rf/<group>, nothing from /verif."""
import json, sys
import os
group, ids = sys.argv[1], sys.argv[2:]
ROUND2 = os.environ.get('RF_ROUND') == '2' 
props = {json.loads(l)['id']: json.loads(l) for l in open('/verif/properties.jsonl')}
wt = '/tmp/rf/' + group
t = f"""You are helping to evaluate a verification tool by playing the role of a developer who REFACTORS code without changing what it does. Work ONLY inside the git worktree {wt} (a checkout of the Rust project w-henderson/Humphrey, a dependency-free HTTP server; `cargo` works offline: always pass --offline). Do not read or write anything under /verif, /work or /repo, and do not look for verification tooling — your rewrites must be independent of it.

For EACH of the properties listed below, write THREE separate, independent patches (each against the clean checkout), each a realistic behaviour-preserving rewrite of code in the files the property is anchored in — the kind of change a maintainer makes in a clean-up commit. Vary the style across the three:
  (1) a local rewrite of control flow or data handling: a loop turned into iterator combinators or the reverse, `match` vs `if let`, early returns, a helper function extracted or inlined, `?` instead of explicit matching, index arithmetic restated, a `String` built differently, a constant hoisted into a `const`/`static`;
  (2) a structural change: statements reordered where order does not matter, a private function/field/variable renamed, a private helper moved, a table (array of pairs, big `match`) reformatted, reordered where order is irrelevant, or restructured (e.g. match arms grouped differently), a type annotation or intermediate variable added, buffer capacity pre-allocated;
  (3) something bolder that still preserves behaviour exactly: a different but equivalent algorithm for the same result, a different internal data structure, splitting a function in two, merging two branches that do the same.
HARD REQUIREMENTS for every patch:
  * Observable behaviour must be IDENTICAL for every input, including error cases: same return values and error variants/messages, same bytes written to sockets in the same order and the same number of write calls where that is plausibly observable, same panics or absence of panics, same blocking/timeouts, same public API (names, signatures, trait impls, Debug/Display output of public types). If you are not sure a rewrite is exactly equivalent on some edge case (empty input, non-ASCII, overflow, boundary sizes), choose another rewrite. Do NOT fix bugs you notice; do NOT improve behaviour.
  * The workspace compiles (`cargo build --workspace --offline`) and the existing test suite passes exactly as before (`cargo test --workspace --no-fail-fast --offline`; one test, tests::client::test_url_parser, already fails for lack of DNS; everything else must still pass).
  * Do not modify tests. Do not touch, move or break code guarded by `#[cfg(humphrey_verif)]` or `cfg!(humphrey_verif)` (instrumentation hooks; leave those lines intact, in the same function and at the same logical point, and make sure `RUSTFLAGS="--cfg humphrey_verif" cargo build --workspace --offline` also still compiles).
  * Each patch changes between 3 and 40 lines, in the anchored files only (plus the call sites a rename needs).
Procedure for each patch: start from the clean checkout (`git checkout -- .`), edit, build, run the tests of the crates you touched (and the whole suite at least once per property), then save it with `git diff > {wt}/patches/<ID>_<k>.diff` (k = 1, 2, 3; create the directory {wt}/patches first and keep it untracked), then `git checkout -- .` again. Also write {wt}/patches/<ID>_<k>.txt with two or three sentences: what was rewritten and why it is equivalent (name the edge cases you considered). Do NOT use `git stash` (the stash is shared with sibling worktrees in which other people work) and do not commit.

The properties (you do not have to make them hold — they hold already; they only tell you which code to rewrite):
"""
for i in ids:
    d = props[i]
    mech = '; '.join('%s (%s)' % (m['name'], m['where']) for m in d['anchors']['mechanism'])
    t += f"""
ID: {i}
Title: {d['title']}
Statement: {d['statement']}
Where it lives: files {', '.join(d['anchors']['files'])}; mechanisms: {mech}
"""
if ROUND2:
    a = t.index('For EACH of the properties listed below')
    b = t.index('HARD REQUIREMENTS for every patch:')
    t = t[:a] + """For EACH of the properties listed below, write TWO separate, independent patches (each against the clean checkout; name them <ID>_4.diff and <ID>_5.diff), each a realistic behaviour-preserving change of code in the files the property is anchored in (and the files it must touch as a consequence):
  (4) a module-level restructuring: move a function, an impl block, a constant or a private type to another (possibly new) file or module of the same crate (updating `mod` / `use` lines), split a long function or file, reorder the items of a file, turn a free function into a method or the reverse, change the type of a private field or local collection (Vec <-> VecDeque, String <-> Box<str>, HashMap <-> BTreeMap where iteration order is not observable, u64 <-> usize where lossless), replace a hand-written loop by a standard-library function with identical semantics;
  (5) a "modernisation / clippy" pass across the anchored files: let-else and `matches!`, `if let ... else` instead of match with one arm, iterator adaptors, `Self::` instead of the type name, `impl Trait` arguments, removing needless clones / allocations / `to_string()` calls, `?` on Option via ok_or, integer conversions via `from` / `try_from` where lossless, `#[derive(Default)]` instead of a hand-written identical impl, doc comments touched up. Several small edits spread over the anchored files in ONE patch.
""" + t[b:]
    t = t.replace('Each patch changes between 3 and 40 lines', 'Each patch changes between 10 and 100 lines').replace('(k = 1, 2, 3;', '(k = 4, 5;')
t += f"""
Your final message: the list of patch files you wrote with a one-line description each, and anything you were unsure about. Leave the worktree clean (only the untracked patches/ directory)."""
open('/tmp/rf/prompt_%s.txt' % group, 'w').write(t)
print('wrote /tmp/rf/prompt_%s.txt' % group, len(t))
