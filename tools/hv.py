"""Shared machinery for the Humphrey verification checks (see DESIGN.md §3).

A check = (1) proof obligations: rebuild the Coq development for the property, verify every theorem in
props/<ID>.v compiles and its Print Assumptions output is allow-listed, scan for forbidden constructs;
(2) correspondence: run the extracted model and the implementation (harness crate built from /repo's
working tree) on the same inputs and compare canonical observables; (3) property oracle on the
implementation outputs; (4) evidence + exit status.
"""
import hashlib
import json
import os
import random
import re
import subprocess
import sys
import time

V = os.environ.get('HV_ROOT') or os.path.dirname(os.path.dirname(os.path.abspath(__file__)))
REPO = os.environ.get('HV_REPO', '/repo')
COQ = V + '/coq'
GUARD = 'humphrey_verif'

# Axioms that the Coq standard library itself declares and that a theorem may depend on; anything else fails.
AXIOM_ALLOW = {
    'functional_extensionality_dep', 'FunctionalExtensionality.functional_extensionality_dep',
    'Eqdep.Eq_rect_eq.eq_rect_eq', 'eq_rect_eq', 'Classical_Prop.classic', 'classic',
    'proof_irrelevance', 'ProofIrrelevance.proof_irrelevance', 'JMeq_eq', 'JMeq.JMeq_eq',
}

FORBIDDEN = re.compile(r'\b(Admitted|admit|Axiom|Axioms|Parameter|Parameters|Conjecture|Conjectures|'
                       r'bypass_check|Admit\s+Obligations)\b|Unset\s+Guard|Unset\s+Positivity|'
                       r'Unset\s+Universe\s+Checking|type-in-type|impredicative-set|native_compute')

TRUSTED_BASE = [
    'Coq 8.16.1 kernel (coqc; vm_compute used inside proofs for finite sweeps and witnesses; native_compute not used)',
    'hand-written Gallina models of the anchored Rust code; tie to /repo = differential correspondence run on every check '
    '(extracted model vs implementation on the same inputs) + tables regenerated from the Rust source (tools/gen_tables.py)',
    'Coq extraction with ExtrOcamlBasic only (Extract Inductive bool/option/unit/list/prod/sumbool/sumor; '
    'Extract Inlined Constant andb/orb); N/Z/nat stay extracted inductives; OCaml 4.13 ocamlopt; ocaml/conv.ml + d_*.ml drivers',
    'Rust harness crate /verif/harness (path deps on /repo, --cfg humphrey_verif), rustc 1.95; Python drivers/oracles in tools/',
    'below the model boundary (not verified): Rust std (BufReader, str::split*, from_utf8, sort, format!, f64 parse/format), '
    'kernel TCP, thread scheduling, argon2, uuid, tokio, rustls',
]


def sh(cmd, cwd=None, timeout=3600, env=None, check=False):
    e = dict(os.environ)
    e['CARGO_NET_OFFLINE'] = 'true'
    if env:
        e.update(env)
    p = subprocess.run(cmd, shell=isinstance(cmd, str), cwd=cwd, env=e, stdout=subprocess.PIPE,
                       stderr=subprocess.STDOUT, timeout=timeout)
    out = p.stdout.decode('utf-8', 'replace')
    if check and p.returncode != 0:
        raise RuntimeError('command failed (%d): %s\n%s' % (p.returncode, cmd, out[-4000:]))
    return p.returncode, out


def hx(b):
    if isinstance(b, str):
        b = b.encode('utf-8')
    return 'h' + bytes(b).hex()


def unhx(s):
    return bytes.fromhex(s[1:] if s.startswith('h') else s)


# ---------------------------------------------------------------------------------------------------
# builds

def gen_tables():
    gt = V + '/tools/gen_tables.py'
    if os.path.exists(gt):
        rc, out = sh(['python3', gt], timeout=120)
        if rc != 0:
            return False, out
    return True, ''


def failed_table_modules(out):
    """Coq module names (TablesX) whose generator failed, from gen_tables.py's output"""
    mods = set()
    for m in re.finditer(r'generator (\w+)\.py failed', out):
        mods.add('Tables' + m.group(1).capitalize())
    return mods


def coq_deps_of_property(pid):
    """names of the Hv modules the property files of `pid` depend on, transitively (textual Require scan)"""
    seen, todo = set(), []
    for f in os.listdir(COQ + '/props'):
        if re.fullmatch(r'%s(_\w+)?\.v' % pid, f):
            todo.append(COQ + '/props/' + f)
    while todo:
        path = todo.pop()
        try:
            txt = open(path, encoding='utf-8').read()
        except OSError:
            continue
        for m in re.finditer(r'(?:From\s+Hv\s+)?Require\s+(?:Import|Export)\s+([^.]*)\.', txt):
            for name in m.group(1).split():
                name = name.split('.')[-1]
                if name not in seen and os.path.exists(COQ + '/theories/' + name + '.v'):
                    seen.add(name)
                    todo.append(COQ + '/theories/' + name + '.v')
    return seen


def coq_makefile():
    """_CoqProject is generated from the files present (theories/*.v, props/*.v) so that adding a file needs no
    shared edit; Makefile regenerated when the list changes."""
    mk = COQ + '/Makefile'
    cp = COQ + '/_CoqProject'
    files = sorted('theories/' + f for f in os.listdir(COQ + '/theories') if f.endswith('.v')) + \
        sorted('props/' + f for f in os.listdir(COQ + '/props') if f.endswith('.v'))
    want = ('-Q theories Hv\n-Q props HvProps\n'
            '-arg -w -arg -notation-overridden,-deprecated-hint-without-locality,-deprecated-instance-without-locality\n'
            + '\n'.join(files) + '\n')
    have = open(cp).read() if os.path.exists(cp) else ''
    if want != have:
        open(cp, 'w').write(want)
    if not os.path.exists(mk) or os.path.getmtime(cp) > os.path.getmtime(mk):
        sh('coq_makefile -f _CoqProject -o Makefile', cwd=COQ, check=True)


def coq_make(targets=None, timeout=3000):
    """Full .vo build (never -vos). targets: list of .vo paths relative to coq/, or None for all."""
    coq_makefile()
    t = ' '.join(targets) if targets else ''
    rc, out = sh('timeout %d make -j16 %s' % (timeout, t), cwd=COQ, timeout=timeout + 60)
    return rc == 0, out


def scan_forbidden():
    """Admitted/admit/Axiom/Parameter/... anywhere in the development (comments stripped)."""
    hits = []
    for root, _, files in os.walk(COQ):
        for f in files:
            if not f.endswith('.v'):
                continue
            p = os.path.join(root, f)
            src = open(p, encoding='utf-8').read()
            src = strip_comments(src)
            for i, line in enumerate(src.split('\n'), 1):
                if FORBIDDEN.search(line):
                    hits.append('%s:%d: %s' % (p, i, line.strip()[:120]))
    return hits


def strip_comments(src):
    out = []
    depth = 0
    i = 0
    n = len(src)
    while i < n:
        if src.startswith('(*', i):
            depth += 1
            i += 2
        elif src.startswith('*)', i) and depth > 0:
            depth -= 1
            i += 2
        else:
            if depth == 0:
                out.append(src[i])
            elif src[i] == '\n':
                out.append('\n')
            i += 1
    return ''.join(out)


def check_props_file(pid, stem):
    """Rebuild props/<pid>.vo, forcing recompilation so that Print Assumptions output is captured.
    Returns dict(theorems=[names], discharged=[names], broken=[(name, why)], log=str, cmd=str)."""
    pf = 'props/%s.v' % stem
    src = strip_comments(open(os.path.join(COQ, pf), encoding='utf-8').read())
    names = re.findall(r'^\s*(?:Theorem|Lemma|Corollary|Example)\s+([A-Za-z0-9_\']+)', src, re.M)
    printed = re.findall(r'^\s*Print\s+Assumptions\s+([A-Za-z0-9_\'.]+)\s*\.', src, re.M)
    res = {'theorems': names, 'discharged': [], 'broken': [], 'log': '',
           'cmd': 'cd /verif/coq && make -j16 props/%s.vo  (coqc 8.16.1, full .vo build)' % stem}
    for n in names:
        if n not in printed:
            res['broken'].append((n, 'no Print Assumptions for this theorem in ' + pf))
    # proofs must be closed with Qed (no Admitted/Abort) — Admitted is caught by scan_forbidden as well
    vo = os.path.join(COQ, 'props/%s.vo' % stem)
    for ext in ('.vo', '.vok', '.vos', '.glob'):
        try:
            os.remove(vo[:-3] + ext)
        except OSError:
            pass
    ok, out = coq_make(['props/%s.vo' % stem])
    res['log'] = out
    if not ok:
        m = re.search(r'File "([^"]+)", line (\d+)[^\n]*\n((?:.*\n){0,12})', out)
        why = (m.group(0).strip() if m else out[-1500:])
        # which theorem breaks? if the failing file is the props file, find the theorem around the line
        broken_name = None
        if m and m.group(1).endswith(pf):
            ln = int(m.group(2))
            lines = open(os.path.join(COQ, pf), encoding='utf-8').read().split('\n')
            for j in range(min(ln, len(lines)) - 1, -1, -1):
                mm = re.match(r'\s*(?:Theorem|Lemma|Corollary|Example)\s+([A-Za-z0-9_\']+)', lines[j])
                if mm:
                    broken_name = mm.group(1)
                    break
        elif m:
            broken_name = 'dependency ' + m.group(1)
        for n in names:
            res['broken'].append((n if broken_name is None else broken_name, why))
            if broken_name is not None:
                break
        return res
    # parse the Print Assumptions blocks in order
    blocks = []
    cur = None
    for line in out.split('\n'):
        if line.startswith('Closed under the global context'):
            blocks.append([])
            cur = None
        elif line.startswith('Axioms:'):
            cur = []
            blocks.append(cur)
        elif cur is not None:
            m = re.match(r'^([A-Za-z0-9_\'.]+)\s*:', line)
            if m:
                cur.append(m.group(1))
            elif line.startswith('COQC') or line.startswith('make'):
                cur = None
    if len(blocks) != len(printed):
        res['broken'].append(('?', 'expected %d Print Assumptions blocks, got %d' % (len(printed), len(blocks))))
        return res
    res['axioms'] = {}
    for n, ax in zip(printed, blocks):
        bad = [a for a in ax if a not in AXIOM_ALLOW and a.split('.')[-1] not in AXIOM_ALLOW]
        res['axioms'][n] = ax
        if bad:
            res['broken'].append((n, 'depends on non-allow-listed axioms: ' + ', '.join(bad)))
        elif n in names and not any(b[0] == n for b in res['broken']):
            res['discharged'].append(n)
    return res


def check_props(pid):
    """All property files of pid: props/<pid>.v and props/<pid>_*.v."""
    stems = sorted(f[:-2] for f in os.listdir(COQ + '/props')
                   if f.endswith('.v') and (f == pid + '.v' or f.startswith(pid + '_')))
    res = {'theorems': [], 'discharged': [], 'broken': [], 'log': '', 'axioms': {},
           'cmd': 'cd /verif/coq && make -j16 %s  (coqc 8.16.1, full .vo build, Print Assumptions parsed)' % ' '.join(
               'props/%s.vo' % s for s in stems)}
    if not stems:
        res['broken'].append((pid, 'no props file'))
    for st in stems:
        r = check_props_file(pid, st)
        for k in ('theorems', 'discharged', 'broken'):
            res[k].extend(r[k])
        res['axioms'].update(r.get('axioms', {}))
        res['log'] += r['log']
    return res


def build_model():
    rc, out = sh([V + '/tools/build_model.sh'], timeout=1800)
    return rc == 0, out


def build_harness(tokio=False):
    d = V + ('/harness_tokio' if tokio else '/harness')
    if not os.path.exists(d + '/Cargo.lock'):
        sh(['cp', REPO + '/Cargo.lock', d + '/Cargo.lock'])
    env = {'RUSTFLAGS': '--cfg %s -A unexpected_cfgs -A warnings' % GUARD}
    rc, out = sh('cargo build --offline 2>&1', cwd=d, env=env, timeout=1800)
    if rc != 0 and 'Cargo.lock' in out:
        sh(['cp', REPO + '/Cargo.lock', d + '/Cargo.lock'])
        rc, out = sh('cargo build --offline 2>&1', cwd=d, env=env, timeout=1800)
    return rc == 0, out


MODEL_BIN = V + '/ocaml/model_runner'
IMPL_BIN = V + '/harness/target/debug/hv_harness'
IMPL_TOKIO_BIN = V + '/harness_tokio/target/debug/hv_harness_tokio'


def _run_shard(binary, chunk, timeout):
    """Run one shard; if the runner dies (abort, stack overflow, kill) mark that line DIED and continue after it."""
    out = []
    pos = 0
    while pos < len(chunk):
        data = ('\n'.join(chunk[pos:]) + '\n').encode('utf-8')
        env = dict(os.environ)
        env['HV_ROOT'] = V
        env['HV_REPO'] = REPO
        p = subprocess.Popen('ulimit -s unlimited 2>/dev/null; exec ' + binary, shell=True, stdin=subprocess.PIPE,
                             stdout=subprocess.PIPE, stderr=subprocess.DEVNULL, env=env)
        try:
            o, _e = p.communicate(data, timeout=timeout)
            died = 'DIED'
        except subprocess.TimeoutExpired:
            p.kill()
            o, _e = p.communicate()
            died = 'TIMEOUT'
        r = o.decode('utf-8', 'replace').split('\n')
        if r and r[-1] == '':
            r = r[:-1]
        need = len(chunk) - pos
        if len(r) >= need:
            out.extend(r[:need])
            break
        out.extend(r)
        out.append(died)
        pos += len(r) + 1
    return out


def run_lines(binary, lines, timeout=1800, shards=16):
    """Feed case lines to a runner, sharded over processes; returns one output line per input line, in order.
    A line on which the runner process dies yields DIED (TIMEOUT if it exceeded the time limit)."""
    if not lines:
        return []
    import threading
    nsh = max(1, min(shards, len(lines) // 200 + 1))
    per = (len(lines) + nsh - 1) // nsh
    chunks = [lines[i * per:(i + 1) * per] for i in range(nsh)]
    chunks = [c for c in chunks if c]
    results = [None] * len(chunks)

    def work(k):
        results[k] = _run_shard(binary, chunks[k], timeout)

    ths = [threading.Thread(target=work, args=(k,)) for k in range(len(chunks))]
    for t in ths:
        t.start()
    for t in ths:
        t.join()
    out = []
    for r in results:
        out.extend(r)
    return out


# ---------------------------------------------------------------------------------------------------
# known findings

def load_findings(pid):
    known, fixed = [], []
    p = V + '/known_findings.jsonl'
    if os.path.exists(p):
        for line in open(p, encoding='utf-8'):
            line = line.strip()
            if not line or line.startswith('#'):
                continue
            if line.startswith('fixed:'):
                fixed.append(line)
                continue
            d = json.loads(line)
            if d.get('property') == pid:
                known.append(d)
    return known, fixed


# ---------------------------------------------------------------------------------------------------
# check context

def anchored_files(pid=None):
    out = {}
    for l in open(V + '/properties.jsonl'):
        d = json.loads(l)
        if pid is None or d['id'] == pid:
            for f in d['anchors']['files']:
                out.setdefault(f, []).append(d['id'])
    return out


def source_drift(pid):
    """anchored files of the property whose content differs from the pinned fingerprint (missing pin = no drift info)"""
    try:
        pins = json.load(open(V + '/tools/anchors_pinned.json'))
    except (OSError, ValueError):
        return []
    out = []
    for f in anchored_files(pid):
        try:
            h = hashlib.sha256(open(REPO + '/' + f, 'rb').read()).hexdigest()
        except OSError:
            h = 'missing'
        if f in pins and pins[f] != h:
            out.append(f)
    return out


class Ctx:
    def __init__(self, pid, tier, seed):
        self.pid = pid
        self.tier = tier
        self.seed = seed
        self.rng = random.Random((seed << 8) ^ int(hashlib.sha256(pid.encode()).hexdigest()[:8], 16))
        self.t0 = time.time()
        self.evaluations = 0
        self.nontrivial = set()
        self.samples = []
        self.dist = {}
        self.violations = []     # dict(kind, case, observed, expected, cls, note)
        self.known_hits = {}     # finding id -> example
        self.traces = 0
        self.disagreements = 0
        self.exhaustive = False
        self.rule = ''
        self.notes = []
        self.extra = {}
        self.known, self.fixed = load_findings(pid)
        # source drift: when a file the property is anchored in differs from the pinned fingerprint (tools/anchors_pinned.json,
        # written by tools/pin_anchors.py after every commit to /repo), the quick tier looks deeper (drivers multiply their
        # case counts by ctx.scale). Drift alone never raises an alarm.
        self.drift = source_drift(pid)
        self.scale = 4 if (self.drift and tier != 'thorough') else 1
        if self.drift:
            self.notes.append('source drift in %s: quick tier scaled x%d' % (', '.join(self.drift), self.scale))

    def count(self, key, n=1):
        self.dist[key] = self.dist.get(key, 0) + n

    def sample(self, s, cap=8):
        if len(self.samples) < cap:
            self.samples.append(s)

    def mark_nontrivial(self, key):
        if len(self.nontrivial) < 2000000:
            self.nontrivial.add(hash(key))

    def both(self, lines, tokio=False):
        """Run the same case lines through the model and the implementation."""
        m = run_lines(MODEL_BIN, lines)
        i = run_lines(IMPL_TOKIO_BIN if tokio else IMPL_BIN, lines)
        self.evaluations += len(lines)
        return m, i

    def model(self, lines):
        return run_lines(MODEL_BIN, lines)

    def impl(self, lines, tokio=False):
        return run_lines(IMPL_TOKIO_BIN if tokio else IMPL_BIN, lines)

    def tokio_twin(self, lines, model_out, cls, norm=lambda x: x, what='tokio runtime differs from the model'):
        """Run the same case lines through the tokio-runtime harness and compare with the model's answers."""
        if not lines:
            return []
        out = run_lines(IMPL_TOKIO_BIN, lines)
        self.evaluations += len(lines)
        self.count('tokio-twin cases', len(lines))
        for line, a, b in zip(lines, model_out, out):
            if norm(a) != norm(b):
                self.report({'line': line[:1500], 'runtime': 'tokio'}, b[:400], a[:400], cls=cls,
                            failing_input=(b in ('PANIC', 'DIED', 'TIMEOUT')), what=what)
        return out

    def finding_for(self, cls):
        for k in self.known:
            if k.get('class') == cls:
                return k
        return None

    def report(self, case, observed, expected, cls=None, failing_input=True, what=''):
        """A case on which the implementation's behaviour differs from the model / fails the oracle.
        cls = classification used to match known findings; failing_input=False when the correspondence
        broke but the oracle could not show the property failing on this input."""
        self.disagreements += 1
        k = self.finding_for(cls) if cls else None
        if k is not None:
            self.known_hits.setdefault(k['id'], {'finding': k, 'case': case, 'observed': observed, 'expected': expected,
                                                 'count': 0})
            self.known_hits[k['id']]['count'] += 1
            return
        if len(self.violations) < 50:
            self.violations.append({'case': case, 'observed': observed, 'expected': expected, 'class': cls,
                                    'failing_input': failing_input, 'what': what})


def write_replay(ctx, v, idx):
    os.makedirs(V + '/replays', exist_ok=True)
    h = hashlib.sha256(json.dumps(v['case'], sort_keys=True, default=str).encode()).hexdigest()[:12]
    path = '%s/replays/%s-%s.json' % (V, ctx.pid, h)
    d = {'property': ctx.pid, 'seed': ctx.seed, 'tier': ctx.tier, 'case': v['case'], 'observed': v['observed'],
         'expected': v['expected'], 'class': v['class'], 'what': v['what'],
         'failing_input_found': v['failing_input'],
         'replay_cmd': './vp %s --replay %s' % (ctx.pid, path)}
    json.dump(d, open(path, 'w'), indent=1, default=str)
    return path


def finish(ctx, proof, forbidden, mod):
    """Write evidence, print KNOWN-FINDING / VIOLATION lines, return exit code."""
    pid = ctx.pid
    rc = 0
    lines = []
    broken = list(proof['broken'])
    if forbidden:
        broken.append(('development', 'forbidden construct: ' + '; '.join(forbidden[:5])))
    nviol = 0
    for i, v in enumerate(ctx.violations[:10]):
        path = write_replay(ctx, v, i)
        tail = '' if v['failing_input'] else ' no-failing-input-found'
        lines.append('VIOLATION property=%s replay=%s%s' % (pid, path, tail))
        nviol += 1
    if broken and not ctx.violations:
        # a proof obligation no longer checks and the search found no failing input
        os.makedirs(V + '/replays', exist_ok=True)
        path = '%s/replays/%s-proof.json' % (V, pid)
        json.dump({'property': pid, 'broken_obligations': [{'theorem': n, 'why': w} for n, w in broken],
                   'failing_input_found': False,
                   'note': 'theorem(s) no longer check; correspondence search found no failing input',
                   'replay_cmd': proof['cmd']}, open(path, 'w'), indent=1)
        lines.append('VIOLATION property=%s replay=%s no-failing-input-found' % (pid, path))
        nviol += 1
    for fid, h in ctx.known_hits.items():
        print('KNOWN-FINDING: property=%s %s %s (e.g. %s; %d case(s) this run)' % (
            pid, fid, h['finding'].get('what', ''), json.dumps(h['case'], default=str)[:160], h['count']))
    for l in lines:
        print(l)
    if nviol:
        rc = 1
    obligations = len(proof['theorems'])
    discharged = len(proof['discharged'])
    cov = {
        'obligations': max(obligations, 1),
        'discharged': discharged,
        'checker_cmd': proof['cmd'],
        'trusted_base': TRUSTED_BASE + list(getattr(mod, 'TRUSTED_EXTRA', [])),
        'theorems': proof['theorems'],
        'axioms_per_theorem': proof.get('axioms', {}),
        'broken_obligations': [{'theorem': n, 'why': w[:400]} for n, w in broken],
        'forbidden_scan_hits': forbidden,
        'evaluations': ctx.evaluations,
        'distinct_nontrivial': len(ctx.nontrivial),
        'rule': ctx.rule or getattr(mod, 'RULE', ''),
        'samples': ctx.samples if ctx.samples else ['(no correspondence cases this run)'],
        'traces_validated_against_impl': ctx.traces,
        'disagreements_checked': ctx.disagreements,
        'distribution': ctx.dist,
        'exhaustive': bool(ctx.exhaustive),
        'known_findings_matched': {fid: {'what': h['finding'].get('what', ''), 'count': h['count'],
                                         'example': h['case']} for fid, h in ctx.known_hits.items()},
        'fixed_findings_recorded': [f for f in ctx.fixed if ('property=' + pid) in f],
        'notes': ctx.notes,
    }
    cov.update(ctx.extra)
    ev = {
        'property_id': pid,
        'tier': ctx.tier,
        'seed': ctx.seed,
        'level': 'proof',
        'coverage': cov,
        'assumptions': list(getattr(mod, 'ASSUMPTIONS', [])),
        'wall_s': round(time.time() - ctx.t0, 2),
        'violations': nviol,
    }
    os.makedirs(V + '/evidence', exist_ok=True)
    json.dump(ev, open('%s/evidence/%s.json' % (V, pid), 'w'), indent=1, default=str)
    print('%s %s: theorems %d/%d discharged, %d cases, %d distinct non-trivial, %d disagreement(s), %d known finding(s), '
          '%.1fs -> %s' % (pid, ctx.tier, discharged, obligations, ctx.evaluations, len(ctx.nontrivial),
                           ctx.disagreements, len(ctx.known_hits), time.time() - ctx.t0, 'FAIL' if rc else 'ok'))
    return rc
