#!/usr/bin/env python3
"""usage: seed_meta.py <name> <worktree> <caught: yes|after-strengthening|no> <note>  — writes /verif/seeded/<name>/meta.json"""
import json, sys, os
name, wt, caught, note = sys.argv[1:5]
out = '/verif/seeded/' + name
src = {}
try:
    src = json.load(open(wt + '/seed_demo/meta.json'))
except Exception as e:  # noqa
    src = {'error': 'agent meta.json unreadable: %r' % e}
res = open(out + '/result.txt').read().strip() if os.path.exists(out + '/result.txt') else ''
meta = {
    'property': src.get('property', name[:3]),
    'summary': src.get('summary'),
    'needs_to_manifest': src.get('needs'),
    'files_changed': src.get('files_changed'),
    'demo_cmd': src.get('demo_cmd'),
    'author_verified': src.get('verified'),
    'confirmed_by_me': 'tools/seed_eval.sh: patch extracted from the seeder\'s scratch worktree; workspace builds; tools/baseline.sh with the '
                       'change: ' + (open(out + '/baseline_with_change.txt').read().strip() if os.path.exists(out + '/baseline_with_change.txt') else '?') +
                       '; demo exit codes and check results: ' + res + ' (demo_with != 0 = fails with the change, demo_without = 0 = passes without)',
    'detected_by_checks': caught,
    'note': note,
}
json.dump(meta, open(out + '/meta.json', 'w'), indent=1)
print(json.dumps(meta)[:300])
