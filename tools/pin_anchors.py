#!/usr/bin/env python3
"""Pins the sha256 of every source file a property is anchored in (tools/anchors_pinned.json). Run after every commit to
/repo; tools/hv.py compares the working tree with these pins and scales the quick tier up when a file differs."""
import hashlib, json, os, sys
sys.path.insert(0, os.path.dirname(os.path.abspath(__file__)))
import hv
pins = {}
for f in sorted(hv.anchored_files()):
    p = hv.REPO + '/' + f
    if os.path.exists(p):
        pins[f] = hashlib.sha256(open(p, 'rb').read()).hexdigest()
json.dump(pins, open(hv.V + '/tools/anchors_pinned.json', 'w'), indent=1, sort_keys=True)
print('pinned', len(pins), 'files at', os.popen('git -C %s rev-parse --short HEAD' % hv.REPO).read().strip())
