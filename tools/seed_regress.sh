#!/bin/bash
# usage, inside `vp run --with-repo`: tools/seed_regress.sh <seeded dir name> ...
# re-applies each kept seeded regression to the run's repo copy and runs the quick check of its property: every one must
# still be reported (exit 1). Summary lines go to /verif/work/seed_regress.log
for N in "$@"; do
  ID=${N:0:3}
  P=/verif/seeded/$N/patch.diff
  [ -f $P ] || continue
  if ! git -C $VP_RUN_REPO apply --check $P 2>/dev/null; then echo "$N DOES-NOT-APPLY" >> /verif/work/seed_regress.log; continue; fi
  git -C $VP_RUN_REPO apply $P
  ./vp $ID quick > work/sr_$N.log 2>&1; R=$?
  echo "$N $ID exit=$R $(grep -c '^VIOLATION' work/sr_$N.log) violation line(s)" >> /verif/work/seed_regress.log
  git -C $VP_RUN_REPO checkout -- . ; git -C $VP_RUN_REPO clean -fdq -e target
done
