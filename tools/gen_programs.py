#!/usr/bin/env python3
"""Program generator for C14 (typed JSON mapping and the json! macro).

One generated crate = a set of "programs" (Rust modules p0, p1, ..), each declaring 1..6 types:
  named structs (1..8 fields) via #[derive(FromJson, IntoJson)] with #[rename = ".."] on some fields, or via json_map!,
  tuple structs (1..6 fields), enums of 1..8 unit variants with #[rename] on some,
over the field types bool / all integer types / f64 / f32 / String / Option<T> / Vec<T> / earlier types of the same program;
plus random values of those types, random JSON values to feed to from_json, and random json! literals (null / arrays / objects
/ Rust expressions in every value position, trailing commas, nesting up to 6, string / identifier / parenthesised keys).

The same objects are rendered twice: as Rust source (the crate's main prints one line per case) and as request lines for the
extracted Coq model (ocaml/d_c14.ml).  Everything is derived from one random.Random; nothing here reads the clock.

Output line formats of the generated program (dumps as in harness/src/c14.rs):
  V <k> <json dump of to_json(v)> <ok <dump of from_json(to_json v)> eq|ne / err> <dump of v> <text: ok <dump> / err>
  J <k> <ok <dump of from_json(j)> / err>
  L <k> <json dump of json!(..)> <json dump of Value::parse(text) eq|ne / parse-err>
"""
import hashlib
import json
import random
import struct
import sys
import unicodedata

INT_TYPES = [('u8', 8, False), ('u16', 16, False), ('u32', 32, False), ('u64', 64, False), ('u128', 128, False),
             ('usize', 64, False), ('i8', 8, True), ('i16', 16, True), ('i32', 32, True), ('i64', 64, True),
             ('i128', 128, True), ('isize', 64, True)]

FIELD_IDENTS = ['a', 'b', 'c', 'x', 'y', 'id', 'name', 'value', 'count', 'flag', 'items', 'inner', 'data', 'kind',
                'r#type', 'r#match', 'r#fn', 'r#loop', 'r#plain', 'camelCase', 'snake_case_name', '_private', 'x1', 'größe',
                '名前', 'ключ', 'n0', 'very_long_field_identifier_number_one']
VARIANT_IDENTS = ['A', 'B', 'C', 'Alpha', 'Beta', 'Yes', 'No', 'Maybe', 'On', 'Off', 'r#Raw', 'r#Type', 'Größe', 'Ünï',
                  'V1', 'V2', 'lower_case', 'X_Y']

SPECIAL_CHARS = ['"', '\\', '/', '{', '}', '[', ']', ',', ':', ' ', '\n', '\t', '\r', '\0', '\x7f', '\x01', '\x1f', "'",
                 '\u00e9', '\u00df', '\u0416', '\u4e2d', '\u65e5', '\U0001F600', '\U0001D11E', '\u0301', '\u2028', '\u00a0',
                 '\ufeff', '\uffff', '\U0010ffff', '\ud7ff', '\ue000', '\u200d', '\u202e', '#', '$', '%', '=', 'null', 'true']


def f64_bits(x):
    return struct.unpack('<Q', struct.pack('<d', x))[0]


def bits_f64(b):
    return struct.unpack('<d', struct.pack('<Q', b))[0]


def f32_bits(x):
    return struct.unpack('<I', struct.pack('<f', x))[0]


def bits_f32(b):
    return struct.unpack('<f', struct.pack('<I', b))[0]


def hx(s):
    if isinstance(s, str):
        s = s.encode('utf-8')
    return bytes(s).hex()


def unraw(ident):
    return ident[2:] if ident.startswith('r#') else ident


# ------------------------------------------------------------------------------------------------------------------
# strings

def gen_string(rng, maxlen=10):
    n = rng.choice([0, 0, 1, 1, 2, 3, 4, 5, 8, maxlen])
    out = []
    for _ in range(n):
        r = rng.random()
        if r < 0.45:
            out.append(chr(rng.randint(0x20, 0x7e)))
        elif r < 0.8:
            out.append(rng.choice(SPECIAL_CHARS))
        else:
            while True:
                c = rng.randint(0, 0x10ffff)
                if not 0xd800 <= c <= 0xdfff:
                    break
            out.append(chr(c))
    return ''.join(out)


def gen_rename(rng):
    r = rng.random()
    if r < 0.08:
        return ''
    if r < 0.3:
        return rng.choice(['camelCase', 'dateOfBirth', 'with space', 'a b c', 'y', 'n', '?', 'type', 'kebab-case', 'dotted.name'])
    return gen_string(rng, 12)


def needs_escape(ch):
    o = ord(ch)
    if o < 0x20 or o == 0x7f:
        return True
    if o > 0x7e:
        cat = unicodedata.category(ch)
        if cat in ('Cc', 'Cf', 'Zl', 'Zp', 'Cn', 'Co', 'Mn', 'Me', 'Zs') or o >= 0xfff0:
            return True
    return False


def rust_str(s, rng=None, allow_raw=True):
    """A Rust string literal denoting s."""
    if rng is not None and allow_raw and rng.random() < 0.12 and all(not needs_escape(c) and c != '\r' for c in s):
        # raw string: no escapes processed; pick enough #
        k = 0
        while ('"' + '#' * k) in s:
            k += 1
        if '"' in s or '\\' in s or rng.random() < 0.5:
            k = max(k, 1) if '"' in s else k
            return 'r' + '#' * k + '"' + s + '"' + '#' * k
    out = ['"']
    for ch in s:
        o = ord(ch)
        if ch == '"':
            out.append('\\"')
        elif ch == '\\':
            out.append('\\\\')
        elif ch == '\n':
            out.append('\\n')
        elif ch == '\r':
            out.append('\\r')
        elif ch == '\t':
            out.append('\\t')
        elif ch == '\0':
            out.append('\\0')
        elif needs_escape(ch):
            out.append('\\u{%x}' % o)
        elif o > 0x7e and rng is not None and rng.random() < 0.3:
            out.append('\\u{%x}' % o)
        else:
            out.append(ch)
    out.append('"')
    return ''.join(out)


def json_str(s, rng=None):
    """A JSON string literal denoting s (RFC 8259)."""
    ea = True if rng is None else rng.random() < 0.5
    t = json.dumps(s, ensure_ascii=ea)
    if rng is not None and '/' in s and rng.random() < 0.5:
        t = t.replace('/', '\\/')
    return t


# ------------------------------------------------------------------------------------------------------------------
# types

class Decl:
    """A generated type declaration."""

    def __init__(self, mod, name, kind):
        self.mod = mod
        self.name = name
        self.kind = kind          # 'struct' | 'map' | 'tuple' | 'enum'
        self.fields = []          # struct/map: (ident, rename|None, type); tuple: type
        self.variants = []        # enum: (ident, rename|None)
        self.docs = set()         # indices carrying a doc comment / other attribute
        self.wf = True

    def path(self):
        return '%s::%s' % (self.mod, self.name)

    def keys(self):
        if self.kind in ('struct', 'map'):
            return [rn if rn is not None else unraw(i) for i, rn, _ in self.fields]
        if self.kind == 'enum':
            return [rn if rn is not None else unraw(i) for i, rn in self.variants]
        return []


def T_prim(k, **kw):
    d = {'k': k}
    d.update(kw)
    return d


def rust_type(t):
    k = t['k']
    if k == 'bool':
        return 'bool'
    if k == 'int':
        return t['rust']
    if k == 'f64':
        return 'f64'
    if k == 'f32':
        return 'f32'
    if k == 'string':
        return 'String'
    if k == 'opt':
        return 'Option<%s>' % rust_type(t['t'])
    if k == 'vec':
        return 'Vec<%s>' % rust_type(t['t'])
    if k == 'ref':
        return t['decl'].name
    raise ValueError(k)


def rust_type_abs(t):
    k = t['k']
    if k == 'opt':
        return 'Option<%s>' % rust_type_abs(t['t'])
    if k == 'vec':
        return 'Vec<%s>' % rust_type_abs(t['t'])
    if k == 'ref':
        return t['decl'].path()
    return rust_type(t)


def enc_rename(rn):
    return '-' if rn is None else 'h' + hx(rn)


def enc_ty(t):
    """Model-side encoding (ocaml/d_c14.ml)."""
    k = t['k']
    if k == 'bool':
        return 'b'
    if k == 'int':
        return '%s%d;' % ('i' if t['signed'] else 'u', t['bits'])
    if k == 'f64':
        return 'd'
    if k == 'f32':
        return 'e'
    if k == 'string':
        return 's'
    if k == 'opt':
        return 'o' + enc_ty(t['t'])
    if k == 'vec':
        return 'v' + enc_ty(t['t'])
    if k == 'ref':
        return enc_decl(t['decl'])
    raise ValueError(k)


def enc_decl(d):
    if d.kind in ('struct', 'map'):
        return 'R%d;' % len(d.fields) + ''.join('h%s;%s;%s' % (hx(unraw(i)), enc_rename(rn), enc_ty(ft)) for i, rn, ft in d.fields)
    if d.kind == 'tuple':
        return 'U%d;' % len(d.fields) + ''.join(enc_ty(ft) for ft in d.fields)
    return 'E%d;' % len(d.variants) + ''.join('h%s;%s;' % (hx(unraw(i)), enc_rename(rn)) for i, rn in d.variants)


def gen_field_type(rng, avail, depth=0):
    r = rng.random()
    if depth < 3 and r < 0.16:
        return {'k': 'opt', 't': gen_field_type(rng, avail, depth + 1)}
    if depth < 3 and r < 0.29:
        return {'k': 'vec', 't': gen_field_type(rng, avail, depth + 1)}
    if avail and r < 0.47:
        return {'k': 'ref', 'decl': rng.choice(avail)}
    r = rng.random()
    if r < 0.1:
        return T_prim('bool')
    if r < 0.58:
        name, bits, signed = rng.choice(INT_TYPES)
        return T_prim('int', rust=name, bits=bits, signed=signed)
    if r < 0.72:
        return T_prim('f64')
    if r < 0.78:
        return T_prim('f32')
    return T_prim('string')


def gen_decl(rng, mod, idx, avail, force_kind=None):
    kind = force_kind or rng.choice(['struct', 'struct', 'map', 'tuple', 'enum'])
    prefix = {'struct': 'S', 'map': 'M', 'tuple': 'T', 'enum': 'E'}[kind]
    d = Decl(mod, '%s%d' % (prefix, idx), kind)
    if kind in ('struct', 'map'):
        n = rng.choice([1, 1, 2, 2, 3, 3, 4, 5, 6, 7, 8])
        idents = rng.sample(FIELD_IDENTS, n)
        used = set()
        dup = rng.random() < 0.03 and n >= 2
        for j, ident in enumerate(idents):
            ft = gen_field_type(rng, avail)
            if kind == 'map':
                rn = gen_rename(rng) if rng.random() < 0.7 else unraw(ident)
            else:
                rn = gen_rename(rng) if rng.random() < 0.45 else None
                # a rename equal to the identifier of ANOTHER field (keys stay distinct when that field is renamed too)
                if rn is None and rng.random() < 0.05 and n >= 2:
                    pass
            key = rn if rn is not None else unraw(ident)
            tries = 0
            while key in used and not (dup and j == n - 1):
                rn = gen_rename(rng) + str(tries)
                key = rn
                tries += 1
            if dup and j == n - 1 and key not in used:
                rn = next(iter(used))
                key = rn
            if key in used:
                d.wf = False
            used.add(key)
            d.fields.append((ident, rn, ft))
            if kind == 'struct' and rng.random() < 0.15:
                d.docs.add(j)
    elif kind == 'tuple':
        n = rng.choice([1, 1, 2, 2, 3, 4, 5, 6])
        d.fields = [gen_field_type(rng, avail) for _ in range(n)]
    else:
        n = rng.choice([1, 2, 2, 3, 3, 4, 5, 6, 7, 8])
        idents = rng.sample(VARIANT_IDENTS, n)
        used = set()
        dup = rng.random() < 0.03 and n >= 2
        for j, ident in enumerate(idents):
            rn = gen_rename(rng) if rng.random() < 0.45 else None
            key = rn if rn is not None else unraw(ident)
            tries = 0
            while key in used and not (dup and j == n - 1):
                rn = gen_rename(rng) + str(tries)
                key = rn
                tries += 1
            if dup and j == n - 1 and key not in used:
                rn = next(iter(used))
                key = rn
            if key in used:
                d.wf = False
            used.add(key)
            d.variants.append((ident, rn))
            if rng.random() < 0.15:
                d.docs.add(j)
    return d


def rename_attr(rn, rng):
    return '#[rename = %s]' % rust_str(rn, rng)


def decl_source(d, rng):
    """Rust source of the declaration (inside its module)."""
    out = []
    derives = 'Debug, PartialEq, Clone'
    if d.kind == 'struct':
        out.append('#[derive(FromJson, IntoJson, %s)]' % derives)
        out.append('pub struct %s {' % d.name)
        for j, (ident, rn, ft) in enumerate(d.fields):
            if j in d.docs:
                out.append(rng.choice(['    /// a documented field', '    #[allow(dead_code)]', '    #[doc = "doc attribute"]']))
            if rn is not None:
                out.append('    ' + rename_attr(rn, rng))
            out.append('    pub %s: %s,' % (ident, rust_type(ft)))
        out.append('}')
    elif d.kind == 'map':
        out.append('#[derive(%s)]' % derives)
        out.append('pub struct %s {' % d.name)
        for ident, rn, ft in d.fields:
            out.append('    pub %s: %s,' % (ident, rust_type(ft)))
        out.append('}')
        pairs = []
        consts = []
        for j, (ident, rn, ft) in enumerate(d.fields):
            if rng.random() < 0.2:
                cname = '%s_KEY_%d' % (d.name.upper(), j)
                consts.append('pub const %s: &str = %s;' % (cname, rust_str(rn, rng)))
                pairs.append('    %s => %s' % (ident, cname))
            else:
                pairs.append('    %s => %s' % (ident, rust_str(rn, rng)))
        out.extend(consts)
        out.append('json_map! {\n    %s,\n%s\n}' % (d.name, ',\n'.join(pairs)))
    elif d.kind == 'tuple':
        out.append('#[derive(FromJson, IntoJson, %s)]' % derives)
        out.append('pub struct %s(%s);' % (d.name, ', '.join('pub ' + rust_type(ft) for ft in d.fields)))
    else:
        out.append('#[derive(FromJson, IntoJson, %s)]' % derives)
        out.append('pub enum %s {' % d.name)
        for j, (ident, rn) in enumerate(d.variants):
            if j in d.docs:
                out.append('    /// a documented variant')
            if rn is not None:
                out.append('    ' + rename_attr(rn, rng))
            out.append('    %s,' % ident)
        out.append('}')
    # Dump impl
    out.append('impl Dump for %s {' % d.name)
    out.append('    fn dump(&self, out: &mut String) {')
    if d.kind in ('struct', 'map'):
        out.append('        out.push_str("R%d;");' % len(d.fields))
        for ident, rn, ft in d.fields:
            out.append('        self.%s.dump(out);' % ident)
    elif d.kind == 'tuple':
        out.append('        out.push_str("U%d;");' % len(d.fields))
        for j in range(len(d.fields)):
            out.append('        self.%d.dump(out);' % j)
    else:
        out.append('        match self {')
        for j, (ident, rn) in enumerate(d.variants):
            out.append('            %s::%s => out.push_str("E%d;"),' % (d.name, ident, j))
        out.append('        }')
    out.append('    }')
    out.append('}')
    return '\n'.join(out)


# ------------------------------------------------------------------------------------------------------------------
# values

def int_range(bits, signed):
    if signed:
        return -(1 << (bits - 1)), (1 << (bits - 1)) - 1
    return 0, (1 << bits) - 1


def gen_int(rng, bits, signed, lossy):
    lo, hi = int_range(bits, signed)
    r = rng.random()
    if bits > 53 and lossy and r < 0.5:
        c = rng.choice([(1 << 53) + 1, (1 << 53) + 3, hi, hi - 1, hi - 1000, (1 << 62) + 1, (1 << 63) - 1025,
                        rng.randint(1 << 53, hi), lo + 1 if signed else hi - 2, -(1 << 53) - 1 if signed else (1 << 54) + 2,
                        rng.randint(lo, -(1 << 53)) if signed else rng.randint(1 << 60, hi)])
        return max(lo, min(hi, c))
    cap = min(hi, 1 << 53)
    capl = max(lo, -(1 << 53))
    if r < 0.15:
        return rng.choice([0, 1, capl, cap, cap - 1, capl + 1 if capl < 0 else 0])
    if r < 0.5:
        return max(capl, min(cap, rng.randint(-100, 100)))
    return rng.randint(capl, cap)


F64_SPECIAL = [0x0, 0x8000000000000000, 0x3ff0000000000000, 0x3ff8000000000000, 0x1, 0x7fefffffffffffff, 0xffefffffffffffff,
               0x0010000000000000, 0x4340000000000000, 0x4340000000000001, 0x3fb999999999999a, 0x400921fb54442d18,
               0x7e37e43c8800759c, 0x0000000000000abc]
F64_NONFINITE = [0x7ff0000000000000, 0xfff0000000000000, 0x7ff8000000000000]
F32_SPECIAL = [0x0, 0x80000000, 0x3f800000, 0x3fc00000, 0x1, 0x7f7fffff, 0xff7fffff, 0x00800000, 0x3dcccccd, 0x40490fdb, 0x4b800000]
F32_NONFINITE = [0x7f800000, 0xff800000, 0x7fc00000]


def gen_f64_bits(rng, nonfinite=0.03):
    r = rng.random()
    if r < nonfinite:
        return rng.choice(F64_NONFINITE)
    if r < 0.3:
        return rng.choice(F64_SPECIAL)
    if r < 0.6:
        return f64_bits(rng.choice([1, -1]) * round(rng.uniform(0, 1000), rng.randint(0, 4)))
    while True:
        b = rng.getrandbits(64)
        if (b >> 52) & 0x7ff != 0x7ff:
            return b


def gen_f32_bits(rng, nonfinite=0.03):
    r = rng.random()
    if r < nonfinite:
        return rng.choice(F32_NONFINITE)
    if r < 0.3:
        return rng.choice(F32_SPECIAL)
    while True:
        b = rng.getrandbits(32)
        if (b >> 23) & 0xff != 0xff:
            return b


def gen_value(rng, t, lossy=False, depth=0):
    """Python representation: bool | int | ('d', bits) | ('e', bits) | str | None | ('some', v) | list (vec / struct / tuple) | ('E', idx)."""
    k = t['k']
    if k == 'bool':
        return rng.random() < 0.5
    if k == 'int':
        return gen_int(rng, t['bits'], t['signed'], lossy)
    if k == 'f64':
        return ('d', gen_f64_bits(rng))
    if k == 'f32':
        return ('e', gen_f32_bits(rng))
    if k == 'string':
        return gen_string(rng)
    if k == 'opt':
        if rng.random() < 0.35:
            return None
        return ('some', gen_value(rng, t['t'], lossy, depth + 1))
    if k == 'vec':
        n = rng.choice([0, 1, 1, 2, 3, 4] if depth < 3 else [0, 1, 1, 2])
        return [gen_value(rng, t['t'], lossy, depth + 1) for _ in range(n)]
    d = t['decl']
    if d.kind in ('struct', 'map'):
        return [gen_value(rng, ft, lossy, depth + 1) for _, _, ft in d.fields]
    if d.kind == 'tuple':
        return [gen_value(rng, ft, lossy, depth + 1) for ft in d.fields]
    return ('E', rng.randrange(len(d.variants)))


def enc_val(t, v):
    k = t['k']
    if k == 'bool':
        return 'b1' if v else 'b0'
    if k == 'int':
        return 'i%d;' % v
    if k == 'f64':
        return 'd%016x;' % v[1]
    if k == 'f32':
        return 'e%08x;' % v[1]
    if k == 'string':
        return 's%s;' % hx(v)
    if k == 'opt':
        return 'n' if v is None else 'S' + enc_val(t['t'], v[1])
    if k == 'vec':
        return 'V%d;' % len(v) + ''.join(enc_val(t['t'], x) for x in v)
    d = t['decl']
    if d.kind in ('struct', 'map'):
        return 'R%d;' % len(v) + ''.join(enc_val(ft, x) for (_, _, ft), x in zip(d.fields, v))
    if d.kind == 'tuple':
        return 'U%d;' % len(v) + ''.join(enc_val(ft, x) for ft, x in zip(d.fields, v))
    return 'E%d;' % v[1]


def rust_val(t, v):
    """A Rust expression of type t denoting v (absolute paths)."""
    k = t['k']
    if k == 'bool':
        return 'true' if v else 'false'
    if k == 'int':
        return '%d%s' % (v, t['rust']) if v >= 0 else '(%d%s)' % (v, t['rust'])
    if k == 'f64':
        return 'f64::from_bits(0x%016x)' % v[1]
    if k == 'f32':
        return 'f32::from_bits(0x%08x)' % v[1]
    if k == 'string':
        return 'String::from(%s)' % rust_str(v)
    if k == 'opt':
        return 'None' if v is None else 'Some(%s)' % rust_val(t['t'], v[1])
    if k == 'vec':
        return 'vec![%s]' % ', '.join(rust_val(t['t'], x) for x in v) if v else 'Vec::new()'
    d = t['decl']
    if d.kind in ('struct', 'map'):
        return '%s { %s }' % (d.path(), ', '.join('%s: %s' % (i, rust_val(ft, x)) for (i, _, ft), x in zip(d.fields, v)))
    if d.kind == 'tuple':
        return '%s(%s)' % (d.path(), ', '.join(rust_val(ft, x) for ft, x in zip(d.fields, v)))
    return '%s::%s' % (d.path(), d.variants[v[1]][0])


def int_survives(z, bits, signed):
    """`z as f64 as <type>` (round to nearest even, then truncate and saturate) == z ?"""
    lo, hi = int_range(bits, signed)
    x = float(z)
    back = int(x)
    back = max(lo, min(hi, back))
    return back == z


def lossy_positions(t, v, out=None, path=''):
    """Classify what in v cannot survive the encoding: list of (class, path, detail)."""
    if out is None:
        out = []
    k = t['k']
    if k == 'int':
        if not int_survives(v, t['bits'], t['signed']):
            out.append(('int-beyond-2^53', path, '%s %d' % (t['rust'], v)))
    elif k == 'opt':
        if v is not None:
            if t['t']['k'] == 'opt' and v[1] is None:
                out.append(('nested-option', path, 'Some(None)'))
            lossy_positions(t['t'], v[1], out, path + '?')
    elif k == 'vec':
        for j, x in enumerate(v):
            lossy_positions(t['t'], x, out, '%s[%d]' % (path, j))
    elif k == 'ref':
        d = t['decl']
        if d.kind in ('struct', 'map'):
            for (i, _, ft), x in zip(d.fields, v):
                lossy_positions(ft, x, out, '%s.%s' % (path, i))
        elif d.kind == 'tuple':
            for j, (ft, x) in enumerate(zip(d.fields, v)):
                lossy_positions(ft, x, out, '%s.%d' % (path, j))
    return out


def expected_after_roundtrip(t, v):
    """The value the encoding is known to produce for v (F26 / F27 applied), used to check that a loss is exactly a known one."""
    k = t['k']
    if k == 'int':
        lo, hi = int_range(t['bits'], t['signed'])
        return max(lo, min(hi, int(float(v))))
    if k == 'opt':
        if v is None:
            return None
        inner = expected_after_roundtrip(t['t'], v[1])
        if t['t']['k'] == 'opt' and inner is None:
            return None
        return ('some', inner)
    if k == 'vec':
        return [expected_after_roundtrip(t['t'], x) for x in v]
    if k == 'ref':
        d = t['decl']
        if d.kind in ('struct', 'map'):
            return [expected_after_roundtrip(ft, x) for (_, _, ft), x in zip(d.fields, v)]
        if d.kind == 'tuple':
            return [expected_after_roundtrip(ft, x) for ft, x in zip(d.fields, v)]
    return v


def has_nonfinite(t, v):
    k = t['k']
    if k == 'f64':
        return (v[1] >> 52) & 0x7ff == 0x7ff
    if k == 'f32':
        return (v[1] >> 23) & 0xff == 0xff
    if k == 'opt':
        return v is not None and has_nonfinite(t['t'], v[1])
    if k == 'vec':
        return any(has_nonfinite(t['t'], x) for x in v)
    if k == 'ref':
        d = t['decl']
        if d.kind in ('struct', 'map'):
            return any(has_nonfinite(ft, x) for (_, _, ft), x in zip(d.fields, v))
        if d.kind == 'tuple':
            return any(has_nonfinite(ft, x) for ft, x in zip(d.fields, v))
    return False


def type_wf(t):
    k = t['k']
    if k in ('opt', 'vec'):
        return type_wf(t['t'])
    if k == 'ref':
        d = t['decl']
        if not d.wf:
            return False
        if d.kind in ('struct', 'map'):
            return all(type_wf(ft) for _, _, ft in d.fields)
        if d.kind == 'tuple':
            return all(type_wf(ft) for ft in d.fields)
    return True


# ------------------------------------------------------------------------------------------------------------------
# JSON values (python: None | bool | ('num', bits) | str | list | ('obj', [(k, v)..]))

def enc_json(j):
    if j is None:
        return 'N'
    if j is True:
        return 'T'
    if j is False:
        return 'F'
    if isinstance(j, str):
        return 'S%s;' % hx(j)
    if isinstance(j, list):
        return 'A%d;' % len(j) + ''.join(enc_json(x) for x in j)
    if j[0] == 'num':
        return 'B%016x;' % j[1]
    return 'O%d;' % len(j[1]) + ''.join('K%s;%s' % (hx(k), enc_json(x)) for k, x in j[1])


def rust_json(j):
    """Rust expression building the Value directly (no json! involved)."""
    if j is None:
        return 'Value::Null'
    if j is True:
        return 'Value::Bool(true)'
    if j is False:
        return 'Value::Bool(false)'
    if isinstance(j, str):
        return 'Value::String(String::from(%s))' % rust_str(j)
    if isinstance(j, list):
        return 'Value::Array(vec![%s])' % ', '.join(rust_json(x) for x in j)
    if j[0] == 'num':
        return 'Value::Number(f64::from_bits(0x%016x))' % j[1]
    return 'Value::Object(vec![%s])' % ', '.join('(String::from(%s), %s)' % (rust_str(k), rust_json(x)) for k, x in j[1])


def num(x):
    return ('num', f64_bits(float(x)))


def gen_any_json(rng, depth=0):
    r = rng.random()
    if r < 0.15:
        return None
    if r < 0.3:
        return rng.random() < 0.5
    if r < 0.5:
        return ('num', gen_f64_bits(rng, 0.05))
    if r < 0.7 or depth > 2:
        return gen_string(rng, 5)
    if r < 0.85:
        return [gen_any_json(rng, depth + 1) for _ in range(rng.randint(0, 3))]
    return ('obj', [(gen_string(rng, 4), gen_any_json(rng, depth + 1)) for _ in range(rng.randint(0, 3))])


def gen_json_number(rng, bits, signed):
    lo, hi = int_range(bits, signed)
    r = rng.random()
    if r < 0.35:
        return num(rng.randint(max(lo, -1000), min(hi, 1000)))
    if r < 0.6:
        base = rng.choice([lo, hi, 0, 1 << 53, -(1 << 53), 1 << bits, -(1 << bits)])
        return num(base + rng.choice([-2, -1.5, -1, -0.5, 0, 0.5, 1, 1.5, 2, 1000, -1000]))
    if r < 0.75:
        return ('num', rng.choice(F64_SPECIAL + F64_NONFINITE))
    if r < 0.9:
        return num(rng.uniform(-300, 300))
    return ('num', gen_f64_bits(rng, 0.1))


def gen_json_for(rng, t, depth=0, mut=0.12):
    """A JSON value that mostly has the shape from_json expects for t, with local deviations."""
    if rng.random() < mut:
        return gen_any_json(rng, depth)
    k = t['k']
    if k == 'bool':
        return rng.random() < 0.5
    if k == 'int':
        return gen_json_number(rng, t['bits'], t['signed'])
    if k == 'f64' or k == 'f32':
        return ('num', gen_f64_bits(rng, 0.08))
    if k == 'string':
        return gen_string(rng, 6)
    if k == 'opt':
        return None if rng.random() < 0.3 else gen_json_for(rng, t['t'], depth + 1, mut)
    if k == 'vec':
        return [gen_json_for(rng, t['t'], depth + 1, mut) for _ in range(rng.choice([0, 1, 2, 3]))]
    d = t['decl']
    if d.kind in ('struct', 'map'):
        members = []
        for (i, rn, ft), key in zip(d.fields, d.keys()):
            r = rng.random()
            if r < 0.12:
                continue                                            # missing key
            members.append((key, gen_json_for(rng, ft, depth + 1, mut)))
            if r > 0.95:
                members.append((key, gen_json_for(rng, ft, depth + 1, mut)))   # duplicate key: the first one is read
        if rng.random() < 0.2:
            members.append((gen_string(rng, 4), gen_any_json(rng, 2)))       # unknown key
        if rng.random() < 0.2 and d.fields:
            members.append((unraw(d.fields[0][0]), gen_any_json(rng, 2)))      # the identifier of a (possibly renamed) field
        if rng.random() < 0.4:
            rng.shuffle(members)
        return ('obj', members)
    if d.kind == 'tuple':
        n = len(d.fields)
        items = [gen_json_for(rng, ft, depth + 1, mut) for ft in d.fields]
        r = rng.random()
        if r < 0.1 and items:
            items.pop()
        elif r < 0.2:
            items.append(gen_any_json(rng, 2))
        return items
    keys = d.keys()
    r = rng.random()
    if r < 0.75:
        return rng.choice(keys)
    if r < 0.9:
        return unraw(rng.choice(d.variants)[0])                      # the identifier of a (possibly renamed) variant
    return rng.choice(keys) + rng.choice([' ', 'x', '\0'])


# ------------------------------------------------------------------------------------------------------------------
# json! literals

PRELUDE = '''    let s0: String = String::from("text");
    let n0: i64 = 41;
    let flag = true;
    let opt_some: Option<u8> = Some(7);
    let opt_none: Option<String> = None;
    let v0: Vec<i32> = vec![1, 2, 3];
    let k0 = "key zero";
    let k1: String = String::from("k\\"1");
    let null = 5u8;
'''

# (rust source, python JSON value, is a single token tree with .to_string() = this string or None)
EXPR_TEMPLATES = [
    ('n0', 41), ('n0 + 1', 42), ('-n0', -41), ('(n0 * 2) as f64 / 4.0', 20.5), ('s0.clone()', 'text'), ('&s0', 'text'),
    ('s0.as_str()', 'text'), ('s0.len()', 4), ('flag', True), ('!flag', False), ('opt_some', 7), ('opt_none.clone()', None),
    ('opt_some.map(|x| x * 2)', 14), ('v0.clone()', [1, 2, 3]), ('&v0', [1, 2, 3]), ('v0.len()', 3), ('v0[1]', 2),
    ('v0.iter().map(|x| x * 2).collect::<Vec<i32>>()', [2, 4, 6]), ('fsum(1, 2)', 3), ('fid::<i64>(5)', 5),
    ('std::cmp::max::<i32>(3, 9)', 9), ('Vec::<u8>::new()', []), ('vec![1, 2, 3]', [1, 2, 3]), ('vec![Some(1), None]', [1, None]),
    ('(1, 2).0', 1), ('if flag { 1 } else { 2 }', 1), ('match n0 { 0 => "zero", _ => "many" }', 'many'),
    ('(|a: i32, b: i32| a * b)(6, 7)', 42), ('"abc".to_uppercase()', 'ABC'), ('format!("{}-{}", 1, 2)', '1-2'),
    ('Some(5u8)', 5), ('None::<String>', None), ('7 as u8', 7), ('1 == 1', True), ('Value::Bool(true)', True),
    ('Value::Null', None), ('json!([1, null])', [1, None]), ('json!({"in": null, "x": [null, 2]})', ('obj', [('in', None), ('x', [None, 2])])),
    ('String::from("x")', 'x'), ("'c'.to_string()", 'c'), ('i64::MAX', 9223372036854775807), ('u8::MAX', 255),
    ('(1 + 2) * 3', 9), ('fsum(fsum(1, 2), fsum(3, 4))', 10), ('pair(1, 2).1', 2), ('[10, 20, 30].len()', None),
    ('std::collections::HashMap::<i32, i32>::new().len()', 0), ('u64::from(3u8)', 3), ('(null)', 5), ('null_like(1, 2)', 2),
    ('true_count(&[true, false, true])', 2),
]
# templates that begin with `[` are not expressions for the macro (the array arm takes the group): excluded
EXPR_TEMPLATES = [e for e in EXPR_TEMPLATES if not e[0].startswith('[')]

HELPERS = '''
fn fsum(a: i32, b: i32) -> i32 { a + b }
fn fid<T>(x: T) -> T { x }
fn pair(a: i32, b: i32) -> (i32, i32) { (a, b) }
fn null_like(_a: i32, b: i32) -> i32 { b }
fn true_count(l: &[bool]) -> usize { l.iter().filter(|x| **x).count() }
'''


def py_to_json(v):
    """Python value of an expression template -> JSON tree."""
    if v is None or isinstance(v, bool) or isinstance(v, str):
        return v
    if isinstance(v, (int, float)):
        return num(v)
    if isinstance(v, list):
        return [py_to_json(x) for x in v]
    if isinstance(v, tuple) and v[0] == 'obj':
        return ('obj', [(k, py_to_json(x)) for k, x in v[1]])
    raise ValueError(v)


def json_text_of(j, rng=None):
    """RFC 8259 text of a JSON tree (numbers must be finite)."""
    if j is None:
        return 'null'
    if j is True:
        return 'true'
    if j is False:
        return 'false'
    if isinstance(j, str):
        return json_str(j, rng)
    if isinstance(j, list):
        return '[' + ','.join(json_text_of(x, rng) for x in j) + ']'
    if j[0] == 'num':
        return repr(bits_f64(j[1]))
    return '{' + ','.join(json_str(k, rng) + ':' + json_text_of(x, rng) for k, x in j[1]) + '}'


NUMBER_LITERALS = ['0', '1', '-1', '42', '-7', '2147483647', '-2147483648', '1.5', '-0.25', '1e3', '2.5E-3', '1E+2', '0.0', '-0.0',
                   '1e-7', '123456789.125', '0.1', '3.141592653589793', '1e22', '4.9e-324', '1.7976931348623157e308', '100',
                   '9007199254740993.0', '0e0', '-0']


class Lit:
    """A node of a json! literal."""

    def __init__(self, kind, **kw):
        self.kind = kind
        self.__dict__.update(kw)


def ws(rng):
    return rng.choice(['', '', ' ', ' ', '  ', '\n        ', ' \t'])


def gen_leaf(rng, typed_pool):
    r = rng.random()
    if r < 0.22:
        return Lit('null')
    if r < 0.30:
        b = rng.random() < 0.5
        return Lit('expr', rust='true' if b else 'false', tok='x' + enc_json(b), text='true' if b else 'false', hole=None)
    if r < 0.46:
        lit = rng.choice(NUMBER_LITERALS)
        if lit == '-0':
            val = 0.0       # Rust: -(0i32) = 0 -> 0.0; the JSON text -0 denotes -0.0, equal under f64 ==
        else:
            val = float(lit)
        return Lit('expr', rust=lit, tok='x' + enc_json(('num', f64_bits(val))), text=lit, hole=None)
    if r < 0.52:
        n, suffix = rng.choice([(3000000000, 'u64'), (7, 'u8'), (-9, 'i64'), (255, 'u8'), (18446744073709551615, 'u64'),
                                (-128, 'i8'), (65535, 'u16'), (1, 'usize'), (170141183460469231731687303715884105727, 'i128')])
        return Lit('expr', rust='%d%s' % (n, suffix), tok='x' + enc_json(num(n)), text=str(n), hole=None)
    if r < 0.55:
        lit, bits32 = rng.choice([('1.5f32', 0x3fc00000), ('0.1f32', 0x3dcccccd), ('-2.0f32', 0xc0000000), ('16777216.0f32', 0x4b800000)])
        val = bits_f32(bits32)
        return Lit('expr', rust=lit, tok='x' + enc_json(('num', f64_bits(val))), text=repr(val), hole=None)
    if r < 0.72:
        s = gen_string(rng)
        return Lit('expr', rust=rust_str(s, rng), tok='k%s;%s' % (hx(s), enc_json(s)), text=None, strval=s, hole=None)
    if r < 0.93 or not typed_pool:
        src, val = rng.choice(EXPR_TEMPLATES)
        j = py_to_json(val)
        return Lit('expr', rust=src, tok='x' + enc_json(j), text=json_text_of(j), hole=None)
    t, v = rng.choice(typed_pool)
    src = rust_val(t, v)
    if t['k'] != 'ref' or rng.random() < 0.3:
        src = 'fid::<%s>(%s)' % (rust_type_abs(t), src)        # explicit type: None / Vec::new() alone cannot be inferred
    hole = 'fid::<%s>(%s)' % (rust_type_abs(t), rust_val(t, v))
    if rng.random() < 0.3:
        src = '&' + src
    return Lit('expr', rust=src, tok='t' + enc_ty(t) + enc_val(t, v), text=None, hole=hole)


def gen_key(rng):
    r = rng.random()
    if r < 0.7:
        s = gen_string(rng, 6)
        return Lit('key', rust=rust_str(s, rng), k=s)
    if r < 0.78:
        return Lit('key', rust='k0', k='key zero')
    if r < 0.84:
        return Lit('key', rust='k1', k='k"1')
    if r < 0.9:
        return Lit('key', rust='(format!("k{}", 3))', k='k3')
    if r < 0.94:
        return Lit('key', rust='("paren")', k='paren')
    if r < 0.97:
        return Lit('key', rust='7', k='7')
    return Lit('key', rust="'c'", k='c')


def gen_lit(rng, depth, typed_pool, maxdepth=6):
    r = rng.random()
    if depth >= maxdepth or r < 0.38 - 0.05 * (maxdepth - depth if depth == 0 else 0):
        return gen_leaf(rng, typed_pool)
    width = rng.choice([0, 1, 1, 2, 2, 3, 4, 5] if depth < 3 else [0, 1, 1, 2, 3])
    trail = width > 0 and rng.random() < 0.3
    if r < 0.7:
        return Lit('arr', items=[gen_lit(rng, depth + 1, typed_pool, maxdepth) for _ in range(width)], trail=trail)
    return Lit('obj', members=[(gen_key(rng), gen_lit(rng, depth + 1, typed_pool, maxdepth)) for _ in range(width)], trail=trail)


def gen_deep_lit(rng, depth, typed_pool):
    """A literal that actually reaches the requested nesting depth."""
    if depth == 0:
        return gen_leaf(rng, typed_pool)
    inner = gen_deep_lit(rng, depth - 1, typed_pool)
    sib = [gen_lit(rng, 7 - depth, typed_pool) for _ in range(rng.randint(0, 2))]
    pos = rng.randint(0, len(sib))
    items = sib[:pos] + [inner] + sib[pos:]
    trail = rng.random() < 0.3
    if rng.random() < 0.5:
        return Lit('arr', items=items, trail=trail)
    return Lit('obj', members=[(gen_key(rng), x) for x in items], trail=trail)


def lit_depth(l):
    if l.kind == 'arr':
        return 1 + max([lit_depth(x) for x in l.items] + [0])
    if l.kind == 'obj':
        return 1 + max([lit_depth(x) for _, x in l.members] + [0])
    return 0


def lit_features(l, acc=None):
    if acc is None:
        acc = set()
    if l.kind == 'null':
        acc.add('null')
    elif l.kind == 'expr':
        acc.add('typed-expr' if l.hole else 'expr')
    elif l.kind == 'arr':
        acc.add('array' if l.items else 'empty-array')
        if l.trail:
            acc.add('trailing-comma')
        for j, x in enumerate(l.items):
            if x.kind == 'null' and j + 1 < len(l.items):
                acc.add('null-then-more')
            lit_features(x, acc)
    else:
        acc.add('object' if l.members else 'empty-object')
        if l.trail:
            acc.add('trailing-comma')
        for k, x in l.members:
            if not k.rust.startswith('"') and not k.rust.startswith('r'):
                acc.add('non-literal-key')
            lit_features(x, acc)
    return acc


def lit_rust(l, rng):
    if l.kind == 'null':
        return 'null'
    if l.kind == 'expr':
        return l.rust
    if l.kind == 'arr':
        parts = [ws(rng) + lit_rust(x, rng) + ws(rng) for x in l.items]
        return '[' + ','.join(parts) + (',' + ws(rng) if l.trail else '') + ']'
    parts = [ws(rng) + k.rust + ws(rng) + ':' + ws(rng) + lit_rust(x, rng) + ws(rng) for k, x in l.members]
    return '{' + ','.join(parts) + (',' + ws(rng) if l.trail else '') + '}'


def lit_tokens(l):
    """Model-side token tree encoding."""
    if l.kind == 'null':
        return 'n'
    if l.kind == 'expr':
        return l.tok
    if l.kind == 'arr':
        toks = []
        for j, x in enumerate(l.items):
            if j:
                toks.append(',')
            toks.append(lit_tokens(x))
        if l.trail:
            toks.append(',')
        return '[%d;' % len(toks) + ''.join(toks)
    toks = []
    for j, (k, x) in enumerate(l.members):
        if j:
            toks.append(',')
        toks.append('k%s;%s' % (hx(k.k), enc_json(k.k)))
        toks.append(':')
        toks.append(lit_tokens(x))
    if l.trail:
        toks.append(',')
    return '{%d;' % len(toks) + ''.join(toks)


def jws(rng):
    return rng.choice(['', '', '', ' ', '\n', '\t ', '\r\n'])


def lit_text_pieces(l, rng, out):
    """The equivalent RFC 8259 text as a list of pieces: str (static) or ('hole', rust expr serialised at run time)."""
    if l.kind == 'null':
        out.append('null')
    elif l.kind == 'expr':
        if l.hole is not None:
            out.append(('hole', l.hole))
        elif l.text is not None:
            out.append(l.text)
        else:
            out.append(json_str(l.strval, rng))
    elif l.kind == 'arr':
        out.append('[' + jws(rng))
        for j, x in enumerate(l.items):
            if j:
                out.append(jws(rng) + ',' + jws(rng))
            lit_text_pieces(x, rng, out)
        out.append(jws(rng) + ']')
    else:
        out.append('{' + jws(rng))
        for j, (k, x) in enumerate(l.members):
            if j:
                out.append(jws(rng) + ',' + jws(rng))
            out.append(json_str(k.k, rng) + jws(rng) + ':' + jws(rng))
            lit_text_pieces(x, rng, out)
        out.append(jws(rng) + '}')
    return out


# ------------------------------------------------------------------------------------------------------------------
# mutated literals (outside the JSON grammar): classified by the model as accepted / no arm / key error

def lit_flat(l):
    if l.kind == 'null':
        return ('n',)
    if l.kind == 'expr':
        return ('x', l.rust, l.tok)
    if l.kind == 'arr':
        toks = []
        for j, x in enumerate(l.items):
            if j:
                toks.append((',',))
            toks.append(lit_flat(x))
        if l.trail:
            toks.append((',',))
        return ('[', toks)
    toks = []
    for j, (k, x) in enumerate(l.members):
        if j:
            toks.append((',',))
        toks.append(('x', k.rust, 'k%s;%s' % (hx(k.k), enc_json(k.k))))
        toks.append((':',))
        toks.append(lit_flat(x))
    if l.trail:
        toks.append((',',))
    return ('{', toks)


def flat_rust(f):
    if f[0] == 'n':
        return 'null'
    if f[0] in (',', ':'):
        return f[0]
    if f[0] == 'x':
        return f[1]
    close = ']' if f[0] == '[' else '}'
    return f[0] + ' '.join(flat_rust(x) for x in f[1]) + close


def flat_tokens(f):
    if f[0] in ('n', ',', ':'):
        return f[0]
    if f[0] == 'x':
        return f[2]
    return '%s%d;' % (f[0], len(f[1])) + ''.join(flat_tokens(x) for x in f[1])


def flat_groups(f, acc):
    if f[0] in ('[', '{'):
        acc.append(f)
        for x in f[1]:
            flat_groups(x, acc)
    return acc


def flat_maximal(f):
    """Is every expression token a MAXIMAL expression in its context?  After an edit two expressions may have become
    neighbours such that rustc parses them as one (`-n0 -1`, `v0 [1]`, `f (x)`): such a sequence is not described by the
    token list and is discarded."""
    if f[0] not in ('[', '{'):
        return True
    toks = f[1]
    for a, b in zip(toks, toks[1:]):
        if a[0] == 'x':
            if b[0] == '[':
                return False
            if b[0] == 'x' and b[1][:1] in '-&*|(.<[?!=+/%^>':
                return False
    return all(flat_maximal(x) for x in toks)


MULTI_TOKEN_KEYS = [('-1', 'x' + enc_json(num(-1))), ('n0 + 1', 'x' + enc_json(num(42))), ('s0.len()', 'x' + enc_json(num(4)))]


def mutate_flat(rng, f):
    """One token-level edit somewhere inside f (f is modified in place); returns a description or None."""
    groups = flat_groups(f, [])
    if not groups:
        return None
    g = rng.choice(groups)
    toks = g[1]
    op = rng.choice(['drop-comma', 'drop-comma', 'double-comma', 'lead-comma', 'drop-colon', 'drop-value', 'drop-key', 'swap',
                     'multi-key', 'group-key', 'null-key', 'extra-colon', 'insert-expr'])
    commas = [j for j, x in enumerate(toks) if x[0] == ',']
    colons = [j for j, x in enumerate(toks) if x[0] == ':']
    if op == 'drop-comma' and commas:
        del toks[rng.choice(commas)]
    elif op == 'double-comma' and commas:
        toks.insert(rng.choice(commas), (',',))
    elif op == 'lead-comma':
        toks.insert(0, (',',))
    elif op == 'drop-colon' and colons:
        del toks[rng.choice(colons)]
    elif op == 'drop-value' and colons:
        j = rng.choice(colons)
        if j + 1 < len(toks):
            del toks[j + 1]
    elif op == 'drop-key' and colons:
        j = rng.choice(colons)
        if j >= 1:
            del toks[j - 1]
    elif op == 'swap' and len(toks) >= 2:
        j = rng.randrange(len(toks) - 1)
        toks[j], toks[j + 1] = toks[j + 1], toks[j]
    elif op == 'multi-key' and colons:
        j = rng.choice(colons)
        if j >= 1:
            src, tok = rng.choice(MULTI_TOKEN_KEYS)
            toks[j - 1] = ('x', src, tok)
    elif op == 'group-key' and colons:
        j = rng.choice(colons)
        if j >= 1:
            toks[j - 1] = ('[', [('x', '1', 'x' + enc_json(num(1)))])
    elif op == 'null-key' and colons:
        j = rng.choice(colons)
        if j >= 1:
            toks[j - 1] = ('n',)
    elif op == 'extra-colon':
        toks.insert(rng.randint(0, len(toks)), (':',))
    elif op == 'insert-expr':
        toks.insert(rng.randint(0, len(toks)), ('x', '99', 'x' + enc_json(num(99))))
    else:
        return None
    return op


# ------------------------------------------------------------------------------------------------------------------
# the crate

CARGO_TOML = '''[package]
name = "%(name)s"
version = "0.0.0"
edition = "2021"

[workspace]

[dependencies]
humphrey_json = { path = "%(repo)s/humphrey-json", features = ["derive"] }

[profile.dev]
opt-level = 0
debug = false
incremental = false
overflow-checks = true

[[bin]]
name = "%(name)s"
path = "src/main.rs"
'''

COMMON = '''#![allow(warnings)]
use humphrey_json::prelude::*;
use humphrey_json::Value;

fn hex(b: &[u8]) -> String {
    let mut s = String::with_capacity(b.len() * 2);
    for x in b {
        s.push_str(&format!("{:02x}", x));
    }
    s
}

fn dump_json(v: &Value, out: &mut String) {
    match v {
        Value::Null => out.push('N'),
        Value::Bool(true) => out.push('T'),
        Value::Bool(false) => out.push('F'),
        Value::Number(x) => out.push_str(&format!("B{:016x};", x.to_bits())),
        Value::String(s) => {
            out.push('S');
            out.push_str(&hex(s.as_bytes()));
            out.push(';');
        }
        Value::Array(a) => {
            out.push_str(&format!("A{};", a.len()));
            for x in a {
                dump_json(x, out);
            }
        }
        Value::Object(o) => {
            out.push_str(&format!("O{};", o.len()));
            for (k, x) in o {
                out.push('K');
                out.push_str(&hex(k.as_bytes()));
                out.push(';');
                dump_json(x, out);
            }
        }
    }
}

pub trait Dump {
    fn dump(&self, out: &mut String);
}
impl Dump for bool {
    fn dump(&self, out: &mut String) {
        out.push_str(if *self { "b1" } else { "b0" });
    }
}
macro_rules! dump_int {
    ($($t:ty),*) => {$(
        impl Dump for $t {
            fn dump(&self, out: &mut String) {
                out.push_str(&format!("i{};", self));
            }
        }
    )*};
}
dump_int!(u8, u16, u32, u64, u128, usize, i8, i16, i32, i64, i128, isize);
impl Dump for f64 {
    fn dump(&self, out: &mut String) {
        out.push_str(&format!("d{:016x};", self.to_bits()));
    }
}
impl Dump for f32 {
    fn dump(&self, out: &mut String) {
        out.push_str(&format!("e{:08x};", self.to_bits()));
    }
}
impl Dump for String {
    fn dump(&self, out: &mut String) {
        out.push('s');
        out.push_str(&hex(self.as_bytes()));
        out.push(';');
    }
}
impl<T: Dump> Dump for Option<T> {
    fn dump(&self, out: &mut String) {
        match self {
            None => out.push('n'),
            Some(x) => {
                out.push('S');
                x.dump(out);
            }
        }
    }
}
impl<T: Dump> Dump for Vec<T> {
    fn dump(&self, out: &mut String) {
        out.push_str(&format!("V{};", self.len()));
        for x in self {
            x.dump(out);
        }
    }
}

fn value_case<T: Dump + IntoJson + FromJson + PartialEq>(k: usize, v: T, out: &mut String) {
    let j = v.to_json();
    out.push_str(&format!("V {} ", k));
    dump_json(&j, out);
    out.push(' ');
    match T::from_json(&j) {
        Ok(b) => {
            out.push_str("ok ");
            b.dump(out);
            out.push_str(if b == v { " eq " } else { " ne " });
        }
        Err(_) => out.push_str("err - - "),
    }
    v.dump(out);
    out.push(' ');
    // the same through text: humphrey_json::to_string then from_str
    let text = humphrey_json::to_string(&v);
    match humphrey_json::from_str::<T, _>(&text) {
        Ok(b) => {
            out.push_str("ok ");
            b.dump(out);
        }
        Err(_) => out.push_str("err -"),
    }
    out.push('\\n');
}

fn from_case<T: Dump + FromJson>(k: usize, j: Value, out: &mut String) {
    out.push_str(&format!("J {} ", k));
    match T::from_json(&j) {
        Ok(b) => {
            out.push_str("ok ");
            b.dump(out);
        }
        Err(_) => out.push_str("err"),
    }
    out.push('\\n');
}

fn literal_case(k: usize, m: Value, text: &str, out: &mut String) {
    out.push_str(&format!("L {} ", k));
    dump_json(&m, out);
    out.push(' ');
    match Value::parse(text) {
        Ok(p) => {
            dump_json(&p, out);
            out.push_str(if m == p { " eq" } else { " ne" });
        }
        Err(_) => out.push_str("parse-err -"),
    }
    out.push('\\n');
}

fn macro_only_case(k: usize, m: Value, out: &mut String) {
    out.push_str(&format!("M {} ", k));
    dump_json(&m, out);
    out.push('\\n');
}
'''


class Crate:
    """One generated crate: programs (modules of type declarations), value cases, from_json cases, literal cases."""

    def __init__(self, seed, index, n_types=40, n_values=300, n_from=150, n_literals=300, n_beyond=60, name='c14_prog'):
        self.seed = seed
        self.index = index
        self.name = name
        h = hashlib.sha256(('c14-crate-%d-%d' % (seed, index)).encode()).hexdigest()
        self.rng = random.Random(int(h[:16], 16))
        rng = self.rng
        self.programs = []            # list of (module name, [Decl])
        self.decls = []
        self.values = []              # dict(k, type, value, rust, ty_enc, val_enc, lossy)
        self.froms = []               # dict(k, type, json, ...)
        self.literals = []            # dict(k, lit, rust, tokens, pieces)
        self.beyond = []              # token-level mutants: dict(k, rust, tokens, op) - classified later by the model
        # programs of 1..6 types until n_types
        p = 0
        while len(self.decls) < n_types:
            mod = 'p%d' % p
            size = min(rng.randint(1, 6), n_types - len(self.decls))
            ds = []
            for j in range(size):
                kinds = None
                ds.append(gen_decl(rng, mod, j, list(ds), kinds))
            self.programs.append((mod, ds))
            self.decls.extend(ds)
            p += 1
        # values: spread over the declared types (every type gets at least 2), plus container wrappers of them
        k = 0
        order = list(self.decls)
        while k < n_values:
            d = order[k % len(order)] if k < 2 * len(order) else rng.choice(order)
            t = {'k': 'ref', 'decl': d}
            r = rng.random()
            if r < 0.08:
                t = {'k': 'vec', 't': t}
            elif r < 0.16:
                t = {'k': 'opt', 't': t}
            lossy = rng.random() < 0.07
            v = gen_value(rng, t, lossy)
            self.values.append({'k': k, 'type': t, 'value': v})
            k += 1
        # from_json cases
        for k in range(n_from):
            d = rng.choice(self.decls)
            t = {'k': 'ref', 'decl': d}
            if rng.random() < 0.1:
                t = {'k': 'vec', 't': t}
            self.froms.append({'k': k, 'type': t, 'json': gen_json_for(rng, t)})
        # literals
        typed_pool = [(x['type'], x['value']) for x in self.values
                      if not has_nonfinite(x['type'], x['value']) and len(enc_val(x['type'], x['value'])) < 400][:60]
        for k in range(n_literals):
            r = rng.random()
            if r < 0.12:
                lit = gen_deep_lit(rng, rng.choice([4, 5, 6, 6]), typed_pool)
            elif r < 0.2:
                lit = gen_leaf(rng, typed_pool)
            else:
                lit = gen_lit(rng, 0, typed_pool, rng.choice([2, 3, 4, 6]))
            self.literals.append({'k': k, 'lit': lit})
        # token-level mutants of grammar literals
        k = 0
        tries = 0
        while k < n_beyond and tries < 20 * n_beyond + 20:
            tries += 1
            base = gen_lit(rng, 0, [], 3)
            if base.kind not in ('arr', 'obj'):
                continue
            f = lit_flat(base)
            op = mutate_flat(rng, f)
            if op is None:
                continue
            if rng.random() < 0.3:
                op2 = mutate_flat(rng, f)
                if op2:
                    op = op + '+' + op2
            if '(null)' in flat_rust(f) or not flat_maximal(f):
                continue
            self.beyond.append({'k': k, 'flat': f, 'op': op, 'rust': flat_rust(f), 'tokens': flat_tokens(f)})
            k += 1

    # ---- model request lines ----
    def model_lines(self):
        lines = []
        for x in self.values:
            te, ve = enc_ty(x['type']), enc_val(x['type'], x['value'])
            lines.append(('V', x['k'], 'tj', 't14_tj %s %s' % (te, ve)))
            lines.append(('V', x['k'], 'rt', 't14_rt %s %s' % (te, ve)))
            lines.append(('V', x['k'], 'chk', 't14_chk %s %s' % (te, ve)))
        for x in self.froms:
            lines.append(('J', x['k'], 'fj', 't14_fj %s %s' % (enc_ty(x['type']), enc_json(x['json']))))
        for x in self.literals:
            tk = lit_tokens(x['lit'])
            lines.append(('L', x['k'], 'mac', 't14_mac %s' % tk))
            lines.append(('L', x['k'], 'den', 't14_den %s' % tk))
            lines.append(('L', x['k'], 'old', 't14_mac_old %s' % tk))
        return lines

    # ---- Rust source ----
    def source(self, accepted_beyond=(), skip=()):
        """skip: set of (kind letter, k) to leave out (cases that were found not to compile)."""
        if not hasattr(self, '_src_seed'):
            self._src_seed = self.rng.random()
        rng = random.Random(self._src_seed)
        out = [COMMON, HELPERS]
        for mod, ds in self.programs:
            out.append('pub mod %s {' % mod)
            out.append('    use super::Dump;')
            out.append('    use humphrey_json::prelude::*;')
            for d in ds:
                out.append('\n'.join('    ' + l if l else l for l in decl_source(d, rng).split('\n')))
            out.append('}')
        calls = []
        for x in self.values:
            if ('V', x['k']) in skip:
                continue
            t = x['type']
            out.append('fn case_v%d(out: &mut String) {\n    let v: %s = %s;\n    value_case(%d, v, out);\n}'
                       % (x['k'], rust_type_abs(t), rust_val(t, x['value']), x['k']))
            calls.append('case_v%d(&mut out);' % x['k'])
        for x in self.froms:
            if ('J', x['k']) in skip:
                continue
            out.append('fn case_j%d(out: &mut String) {\n    let j: Value = %s;\n    from_case::<%s>(%d, j, out);\n}'
                       % (x['k'], rust_json(x['json']), rust_type_abs(x['type']), x['k']))
            calls.append('case_j%d(&mut out);' % x['k'])
        for x in self.literals:
            if ('L', x['k']) in skip:
                continue
            lit = x['lit']
            pieces = lit_text_pieces(lit, rng, [])
            body = ['    let mut text = String::new();']
            for p in pieces:
                if isinstance(p, tuple):
                    body.append('    text.push_str(&humphrey_json::to_string(&%s));' % p[1])
                else:
                    body.append('    text.push_str(%s);' % rust_str(p))
            x['rust'] = lit_rust(lit, rng)
            x['text_pieces'] = pieces
            out.append('fn case_l%d(out: &mut String) {\n%s    let m: Value = json!(%s);\n%s\n    literal_case(%d, m, &text, out);\n}'
                       % (x['k'], PRELUDE, x['rust'], '\n'.join(body), x['k']))
            calls.append('case_l%d(&mut out);' % x['k'])
        for x in accepted_beyond:
            if ('M', x['k']) in skip:
                continue
            out.append('fn case_m%d(out: &mut String) {\n%s    let m: Value = json!(%s);\n    macro_only_case(%d, m, out);\n}'
                       % (x['k'], PRELUDE, x['rust'], x['k']))
            calls.append('case_m%d(&mut out);' % x['k'])
        out.append('fn main() {\n    let mut out = String::new();\n    %s\n    print!("{}", out);\n}' % '\n    '.join(calls))
        return '\n\n'.join(out) + '\n'

    def cargo_toml(self, repo):
        return CARGO_TOML % {'name': self.name, 'repo': repo}


def reject_crate_source(cases):
    """A crate in which every listed json! invocation (one per line) is expected to be a compile error; returns
    (source, {line number: case}).  No variable named `null` is in scope here (with one, `null: 1` is a valid member whose
    key is that variable's to_string())."""
    lines = (COMMON + HELPERS).split('\n')
    where = {}
    for x in cases:
        lines.append('fn neg_%d() {' % x['k'])
        lines.extend(l for l in PRELUDE.rstrip('\n').split('\n') if 'let null' not in l)
        lines.append('    let _m: Value = json!(%s);' % x['rust'].replace('\n', ' '))
        where[len(lines)] = x
        lines.append('}')
    lines.append('fn main() {}')
    return '\n'.join(lines) + '\n', where


if __name__ == '__main__':
    import argparse
    import os
    ap = argparse.ArgumentParser()
    ap.add_argument('--seed', type=int, default=1)
    ap.add_argument('--index', type=int, default=0)
    ap.add_argument('--out', required=True)
    ap.add_argument('--repo', default=os.environ.get('HV_REPO', '/repo'))
    a = ap.parse_args()
    c = Crate(a.seed, a.index)
    os.makedirs(a.out + '/src', exist_ok=True)
    open(a.out + '/src/main.rs', 'w').write(c.source())
    open(a.out + '/Cargo.toml', 'w').write(c.cargo_toml(a.repo))
    open(a.out + '/model_lines.txt', 'w').write('\n'.join(l[3] for l in c.model_lines()) + '\n')
    print('%d types in %d programs, %d values, %d from_json cases, %d literals' % (
        len(c.decls), len(c.programs), len(c.values), len(c.froms), len(c.literals)))
