#!/usr/bin/env python3
"""usage: seed_prompt.py <ID> [extra guidance text]  -> writes /tmp/seed/prompt_<ID>.txt
The prompt given to a fresh seeding sub-agent: the text of one property and its scratch worktree, nothing from /verif."""
import json, sys
pid = sys.argv[1]
extra = sys.argv[2] if len(sys.argv) > 2 else ''
d = next(json.loads(l) for l in open('/verif/properties.jsonl') if json.loads(l)['id'] == pid)
wt = '/tmp/seed/' + pid
mech = '; '.join('%s (%s)' % (m['name'], m['where']) for m in d['anchors']['mechanism'])
t = f"""You are helping to evaluate a verification tool by playing the role of a developer who introduces a subtle regression. Work ONLY inside the git worktree {wt} (a checkout of the Rust project w-henderson/Humphrey, a dependency-free HTTP server; `cargo` works offline: always pass --offline). Do not read or write anything under /verif, /work or /repo, and do not look for verification tooling — your change must be independent of it.

The property you must break:

ID: {pid}
Title: {d['title']}
Statement: {d['statement']}
Quantifier (what it ranges over): {d['quantifier']['text']}
Why ordinary tests cannot settle it: {d['why_tests_cant']}
Where it lives: files {', '.join(d['anchors']['files'])}; mechanisms: {mech}

Your task: make ONE small, realistic source change (the kind of plausible refactoring slip, off-by-one, dropped check, wrong operator, reordered statements or "optimisation" a real contributor could commit — NOT sabotage that ordinary use would expose at once) such that:
1. the workspace still compiles (`cargo build --workspace --offline`) and the existing test suite still passes exactly as before (`cargo test --workspace --no-fail-fast --offline` — note one test, tests::client::test_url_parser, already fails for lack of DNS; everything else must still pass);
2. the property above is violated, but only under something specific: an unusual input, a particular multi-step sequence, a particular interleaving or fault point, a boundary size, or two cooperating code sites that each look fine alone. State precisely what is needed for it to manifest.
3. you provide a DEMONSTRATION: a small Rust integration test or example program (put it under {wt}/seed_demo/ as its own tiny cargo crate with a path dependency on the crates in the worktree and an empty [workspace] table, or as a new test file inside the relevant crate's tests that you do NOT count as part of the change) that FAILS with your change and PASSES without it. Verify both directions yourself (to remove the source change temporarily use `git diff -- . ':!seed_demo' > {wt}.patch && git apply -R {wt}.patch`, and `git apply {wt}.patch` to restore it — do NOT use `git stash`: the stash is shared between worktrees and other people are working in sibling worktrees).
Do not modify existing tests. Do not touch code guarded by `#[cfg(humphrey_verif)]` (those are instrumentation hooks; leave them intact and compiling). Keep the change to a few lines in the anchored files.

When done, leave in {wt}: (a) the source change as uncommitted modifications of tracked files (so that `git -C {wt} diff -- . ':!seed_demo'` is the patch), (b) the demo under seed_demo/, and (c) a file {wt}/seed_demo/meta.json with keys: property, summary (one sentence), needs (what must happen for it to manifest), files_changed, demo_cmd (exact command to run the demo from {wt}), verified (what you ran and saw, both directions). Your final message should repeat meta.json and the diff.
"""
if extra:
    t += '\nADDITIONAL GUIDANCE: ' + extra + '\n'
open('/tmp/seed/prompt_%s.txt' % pid, 'w').write(t)
print('wrote', '/tmp/seed/prompt_%s.txt' % pid, len(t))
