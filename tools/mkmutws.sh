#!/bin/bash
# Workspace for the mutation campaign: a full copy of /verif with its build output (so nothing is rebuilt from scratch)
# and a scratch worktree of /repo HEAD, under /work/<name>.
set -euo pipefail
n=$1
mkdir -p /work/$n
rsync -a --exclude .git --exclude replays --exclude seeded --exclude work /verif/ /work/$n/verif/
mkdir -p /work/$n/verif/work /work/$n/verif/replays
git -C /repo worktree add -q --detach /work/$n/repo HEAD
sed -i "s#/repo/#/work/$n/repo/#" /work/$n/verif/harness/Cargo.toml /work/$n/verif/harness_tokio/Cargo.toml
echo ready /work/$n
