#!/bin/bash
# usage: seed_eval.sh <PROPERTY-ID> <seed worktree> [name]
# 1. extracts the seeded change (patch.diff), demo and meta.json into /verif/seeded/<name>/
# 2. confirms in the seed worktree: builds, baseline test suite still passes, demo fails with / passes without the change
# 3. applies the patch to /repo, runs ./vp <ID> quick (and any extra checks given in $EXTRA), restores /repo
set -u
ID=$1; WT=$2; NAME=${3:-$ID}
OUT=/verif/seeded/$NAME
mkdir -p $OUT
git -C $WT diff -- . ':!seed_demo' > $OUT/patch.diff
if [ ! -s $OUT/patch.diff ]; then echo "EMPTY PATCH"; exit 2; fi
rm -rf $OUT/demo; mkdir -p $OUT/demo
rsync -a --exclude target --exclude Cargo.lock $WT/seed_demo/ $OUT/demo/ 2>/dev/null
# any new test files outside seed_demo (untracked) are part of the demonstration
git -C $WT ls-files --others --exclude-standard | grep -v '^seed_demo/' | grep -v '/target/' | while read f; do mkdir -p $OUT/demo/extra/$(dirname $f); cp $WT/$f $OUT/demo/extra/$f; done
echo "--- patch ($(wc -l < $OUT/patch.diff) lines) ---"; cat $OUT/patch.diff | head -60
DEMO_CMD=$(python3 -c "import json;print(json.load(open('$WT/seed_demo/meta.json'))['demo_cmd'])" 2>/dev/null)
echo "--- demo_cmd: $DEMO_CMD"
cd $WT
echo "--- build + baseline with the change"
cargo build --workspace --offline 2>&1 | grep -E "^error" | head -3
HV_REPO=$WT /verif/tools/baseline.sh | tail -1 | tee $OUT/baseline_with_change.txt
echo "--- demo WITH change (must fail)"
( timeout 600 bash -c "$DEMO_CMD" ) > $OUT/demo_with.log 2>&1; RC1=$?; echo "exit=$RC1"; tail -3 $OUT/demo_with.log
# (no git stash: refs/stash is shared by all worktrees of the repository)
git apply -R $OUT/patch.diff
echo "--- demo WITHOUT change (must pass)"
( timeout 600 bash -c "$DEMO_CMD" ) > $OUT/demo_without.log 2>&1; RC2=$?; echo "exit=$RC2"; tail -3 $OUT/demo_without.log
git apply $OUT/patch.diff
echo "--- check against /repo with the patch applied"
cd /repo
if ! git apply --check $OUT/patch.diff 2>/dev/null; then echo "PATCH DOES NOT APPLY TO /repo"; exit 3; fi
git apply $OUT/patch.diff
# the checks rewrite /verif/evidence/<id>.json: keep the clean-tree evidence aside and put it back afterwards (what a check
# wrote about the seeded tree is kept next to the seed as evidence_<id>.json)
EVBAK=$(mktemp -d /verif/work/evbak.XXXXXX); cp /verif/evidence/*.json $EVBAK/ 2>/dev/null
RES=""
for C in $ID ${EXTRA:-}; do
  ( cd /verif && ./vp $C quick ) > $OUT/check_$C.log 2>&1; R=$?
  echo "check $C exit=$R: $(grep -c '^VIOLATION' $OUT/check_$C.log) VIOLATION line(s); $(tail -1 $OUT/check_$C.log)"
  RES="$RES $C=$R"
  cp /verif/evidence/$C.json $OUT/evidence_$C.json 2>/dev/null
done
cp $EVBAK/*.json /verif/evidence/ 2>/dev/null; rm -rf $EVBAK
git -C /repo checkout -- . ; git -C /repo status --short | head -3
echo "demo_with=$RC1 demo_without=$RC2 checks:$RES" | tee $OUT/result.txt
