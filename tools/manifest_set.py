#!/usr/bin/env python3
"""usage: manifest_set.py <ID> <text> <level_note> <technique> [design_ref]  — adds or replaces a check, removes it from
not_applicable, keeps checks sorted by id."""
import json, sys
V = '/verif'
pid, text, note, tech = sys.argv[1:5]
ref = sys.argv[5] if len(sys.argv) > 5 else 'DESIGN.md §5 ' + pid
m = json.load(open(V + '/MANIFEST.json'))
c = {"property_id": pid, "quick_cmd": "./vp %s quick" % pid, "thorough_cmd": "./vp %s thorough" % pid,
     "evidence_file": "/verif/evidence/%s.json" % pid, "replay_cmd_template": "./vp %s --replay {path}" % pid,
     "engine": "coq-model+corr", "level_claimed": {"category": "proof", "text": text, "design_ref": ref},
     "level_note": note, "technique": tech}
m['checks'] = [x for x in m['checks'] if x['property_id'] != pid] + [c]
m['checks'].sort(key=lambda x: x['property_id'])
m['not_applicable'] = [x for x in m.get('not_applicable', []) if x['property_id'] != pid]
for e in m.get('engines', []):
    if pid not in e['serves_properties']:
        e['serves_properties'].append(pid)
        e['serves_properties'].sort()
json.dump(m, open(V + '/MANIFEST.json', 'w'), indent=1)
print('ok', [x['property_id'] for x in m['checks']])
