"""Table generators. Sources are read through `read_src`, which first brings the file into rustfmt's default layout
(rustfmt from the installed toolchain, default configuration, edition 2021, nothing written back): a commit that only
re-formats the code (another max_width, arms broken over several lines, ...) then yields the same tables."""
import os
import shutil
import subprocess

_CACHE = {}


def read_src(path):
    raw = open(path, encoding='utf-8').read()
    key = (path, hash(raw))
    if key in _CACHE:
        return _CACHE[key]
    text = raw
    exe = shutil.which('rustfmt') or os.path.expanduser('~/.cargo/bin/rustfmt')
    if exe and os.path.exists(exe):
        try:
            # --config-path to our own empty rustfmt.toml: the repository's configuration (if any) must not decide the layout
            cfg = os.path.join(os.path.dirname(os.path.abspath(__file__)), 'rustfmt.toml')
            r = subprocess.run([exe, '--edition', '2021', '--emit', 'stdout', '--quiet', '--config-path', cfg],
                               input=raw, capture_output=True, text=True, timeout=60)
            if r.returncode == 0 and r.stdout.strip():
                text = r.stdout
        except (OSError, subprocess.SubprocessError):
            pass
    _CACHE[key] = text
    return text
