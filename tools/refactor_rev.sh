#!/bin/bash
# second evaluation pipeline (inside `vp run --with-repo`): patches in reverse order, on the run's own copies
for P in $(ls /tmp/rf/*/patches/C??_?.diff | sort -r); do
  N=$(basename $P .diff)
  [ -f /verif/refactors/$N/result.txt ] && continue
  [ -d /verif/refactors/$N ] && continue
  mkdir -p /verif/refactors/$N
  RF_REPO=$VP_RUN_REPO RF_VERIF=$PWD tools/refactor_eval.sh $P $N
  cp -r refactors/$N/. /verif/refactors/$N/
done
