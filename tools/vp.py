#!/usr/bin/env python3
"""Entry point: ./vp setup | ./vp <ID> quick|thorough | ./vp <ID> --replay <path> | ./vp all quick"""
import importlib
import json
import os
import sys
import time

sys.path.insert(0, os.path.dirname(os.path.abspath(__file__)))
import hv  # noqa: E402


def load(pid):
    return importlib.import_module('props.' + pid.lower())


def setup():
    t0 = time.time()
    ok, out = hv.gen_tables()
    if not ok:
        print(out)
        return 1
    ok, out = hv.coq_make(None, timeout=3400)
    print(out[-3000:])
    if not ok:
        print('setup: Coq build failed (individual checks will report which obligations break)')
    ok2, out = hv.build_model()
    if not ok2:
        print(out[-3000:])
        return 1
    ok3, out = hv.build_harness()
    if not ok3:
        print(out[-3000:])
        return 1
    if os.path.exists(hv.V + '/harness_tokio/Cargo.toml'):
        ok4, out = hv.build_harness(tokio=True)
        if not ok4:
            print(out[-3000:])
            return 1
    print('setup done in %.0fs' % (time.time() - t0))
    return 0


def run_check(pid, tier, replay=None):
    seed = int(os.environ.get('VERIF_SEED', '1') or '1')
    mod = load(pid)
    ctx = hv.Ctx(pid, tier, seed)
    ctx.replay = json.load(open(replay)) if replay else None
    # 1. tables + proofs
    tables_ok, tables_out = hv.gen_tables()
    if not tables_ok:
        print(tables_out)
    proof = hv.check_props(pid)
    if not tables_ok:
        # a table generator could not read what it expects from the Rust source: the theorems that depend on its table
        # would be re-checked against a stale table, so the obligation "table = source" is broken for them (and only them)
        failed = hv.failed_table_modules(tables_out)
        deps = hv.coq_deps_of_property(pid)
        if not failed or (failed & deps):
            proof['broken'].append(('gen_tables', tables_out[-600:]))
        else:
            ctx.notes.append('table generator(s) for %s failed, but no theorem of %s depends on them: %s' % (
                ', '.join(sorted(failed)), pid, tables_out.strip()[-300:]))
    forbidden = hv.scan_forbidden()
    # 2. builds (model extraction + harness from /repo's working tree, hooks on)
    ok, out = hv.build_model()
    if not ok:
        print('model build failed:\n' + out[-3000:])
        proof['broken'].append(('extraction', out[-600:]))
    needs_tokio = getattr(mod, 'NEEDS_TOKIO', False)
    okh, outh = hv.build_harness()
    if okh and needs_tokio:
        okh, outh = hv.build_harness(tokio=True)
    if not okh:
        # the implementation does not build with the harness: cannot show the property
        print('harness build failed:\n' + outh[-3000:])
        ctx.report({'build': 'harness'}, outh[-800:], 'harness builds against /repo', cls=None, failing_input=False,
                   what='harness crate no longer builds against /repo (API used by the correspondence changed)')
    else:
        mod.run(ctx)
    return hv.finish(ctx, proof, forbidden, mod)


def main():
    a = sys.argv[1:]
    if not a:
        print(__doc__)
        return 2
    if a[0] == 'setup':
        return setup()
    pid = a[0].upper()
    if '--replay' in a:
        return run_check(pid, 'quick', replay=a[a.index('--replay') + 1])
    tier = a[1] if len(a) > 1 else os.environ.get('VERIF_TIER', 'quick')
    if pid == 'ALL':
        rc = 0
        m = json.load(open(hv.V + '/MANIFEST.json'))
        for c in m['checks']:
            rc |= run_check(c['property_id'], tier)
        return rc
    return run_check(pid, tier)


if __name__ == '__main__':
    sys.exit(main())
